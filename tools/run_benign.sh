#!/bin/sh
# usage: run_benign.sh ; applies each harmless change under seeded/benign to /repo, runs the checks of the properties
# that cover the touched function, restores /repo. Every run must exit 0.
cd /verif
for d in /verif/seeded/benign/*/; do
  n=$(basename $d)
  if [ -n "$(git -C /repo status --porcelain)" ]; then echo "REPO DIRTY, refusing"; exit 2; fi
  git -C /repo apply $d/patch.diff || { echo "$n: patch does not apply"; continue; }
  props=$(cat $d/props 2>/dev/null)
  out=""
  for p in $props; do
    H2VC_EVIDENCE_DIR=$d ./check $p > $d/check_$p.out 2>&1; rc=$?
    out="$out $p:exit=$rc"
  done
  git -C /repo checkout -- .
  echo "$n:$out"
done
