#!/usr/bin/env python3
"""Regenerates /verif/MANIFEST.json from tools/claims.json (one entry per property)."""
import json, os
root = os.path.dirname(os.path.dirname(os.path.abspath(__file__)))
claims = json.load(open(os.path.join(root, "tools", "claims.json")))
props = [json.loads(l) for l in open(os.path.join(root, "properties.jsonl"))]
checks, na = [], []
for p in props:
    c = claims.get(p["id"])
    if not c or c.get("not_applicable"):
        na.append({"property_id": p["id"], "reason": (c or {}).get("not_applicable", "no contract within reach of the generator as built yet")})
        continue
    checks.append({
        "property_id": p["id"],
        "quick_cmd": "./check %s --tier quick" % p["id"],
        "thorough_cmd": "./check %s --tier thorough" % p["id"],
        "evidence_file": "/verif/evidence/%s.json" % p["id"],
        "replay_cmd_template": "./check %s --replay {path}" % p["id"],
        "engine": "h2vc",
        "level_claimed": {"category": "proof", "text": c["text"], "design_ref": c.get("design_ref", "DESIGN.md section 7")},
        "level_note": c["note"],
        "technique": c.get("technique", "contract-based deductive verification: weakest-precondition VCs generated from go/ssa of /repo, discharged by z3/cvc5"),
    })
m = {
    "version": 1,
    "setup_cmd": "./setup.sh",
    "hooks": {
        "guard": "verif",
        "enable": "go build -tags verif (the tag only adds comment-only contract files contracts_verif.go and http2utils/contracts_verif.go)",
        "baseline_off_cmd": ". /verif/env.sh && cd /repo && go test -vet=off -count=1 -timeout 25m ./...",
        "source_commits": claims.get("_hook_commits", []),
        "add_only": True,
    },
    "engines": [{"name": "h2vc", "path": "/verif/h2vc", "serves_properties": [c["property_id"] for c in checks],
                 "kind_free_text": "deductive verifier for Go written for this task: contracts in //@ comments, symbolic execution of go/ssa (naive form) into SMT-LIB verification conditions over Int/arrays, loop invariants or complete unrolling, modular call handling by contract, solved by a portfolio of z3 4.8.12, z3 5.1.0 and cvc5 1.0"}],
    "checks": checks,
    "not_applicable": na,
    "notes": claims.get("_notes", ""),
}
json.dump(m, open(os.path.join(root, "MANIFEST.json"), "w"), indent=1)
print("MANIFEST.json: %d checks, %d not applicable" % (len(checks), len(na)))
