#!/bin/sh
# usage: confirm_mutant.sh <srcdir with patch.diff demo_test.go meta.json> <name>
# Confirms in a scratch worktree of /repo HEAD: patch applies, builds, full suite passes with it,
# demo fails with it and passes without it. Writes <name>.confirm.log next to the sources.
src="$1"; name="$2"
. /verif/env.sh
wt=/tmp/confirm_$name
log="$src/confirm.log"
git -C /repo worktree remove --force $wt 2>/dev/null
git -C /repo worktree add -q --detach $wt HEAD || exit 2
pkgdir=$wt
grep -q "^package http2utils" "$src/demo_test.go" && pkgdir=$wt/http2utils
{
echo "== base $(git -C /repo rev-parse --short HEAD)"
cd $wt
echo "== demo on unmodified tree (must pass)"
cp "$src/demo_test.go" $pkgdir/zz_demo_test.go
tn=$(grep -o "^func Test[A-Za-z0-9_]*" "$src/demo_test.go" | head -1 | sed 's/func //')
( cd $pkgdir && go test -vet=off -count=1 -timeout 120s -run "^$tn\$" . ) > /tmp/confirm_$name.base 2>&1; base=$?
tail -3 /tmp/confirm_$name.base
rm $pkgdir/zz_demo_test.go
echo "== apply"
git apply "$src/patch.diff" || { echo APPLY-FAILED; }
go build ./... || echo BUILD-FAILED
echo "== full suite with change (must pass)"
go test -vet=off -count=1 -timeout 25m ./... > /tmp/confirm_$name.suite 2>&1; suite=$?
grep -E "^(--- FAIL|FAIL|panic)" /tmp/confirm_$name.suite | head -10
tail -4 /tmp/confirm_$name.suite
echo "== demo with change (must fail)"
cp "$src/demo_test.go" $pkgdir/zz_demo_test.go
( cd $pkgdir && go test -vet=off -count=1 -timeout 120s -run "^$tn\$" . ) > /tmp/confirm_$name.mut 2>&1; mut=$?
tail -5 /tmp/confirm_$name.mut
echo "RESULT base_demo_exit=$base suite_exit=$suite mutant_demo_exit=$mut"
} > "$log" 2>&1
cd /
git -C /repo worktree remove --force $wt
rm -f /tmp/confirm_$name.*
tail -1 "$log"
