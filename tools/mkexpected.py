#!/usr/bin/env python3
"""Writes /verif/expected_obligations.json from the evidence files of a passing run:
per property, the named (contract-derived) obligations that must be generated on every run.
Automatic safety/overflow obligations are not listed: their number is free to change with the code."""
import json, glob, os
root = os.path.dirname(os.path.dirname(os.path.abspath(__file__)))
out = {}
for f in sorted(glob.glob(os.path.join(root, "evidence", "C*.json"))):
    ev = json.load(open(f))
    names = sorted({o["name"] for o in ev["coverage"]["obligation_list"]
                    if o["kind"] in ("post", "assert", "inv-entry", "inv-preserve", "dec", "unwind") and ":auto:" not in o["name"]})
    out[ev["property_id"]] = names
json.dump({"obligations": out}, open(os.path.join(root, "expected_obligations.json"), "w"), indent=0)
print({k: len(v) for k, v in out.items()})
