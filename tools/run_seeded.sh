#!/bin/sh
# usage: run_seeded.sh <seeded-name>... ; applies each patch to /repo, runs the property's quick check, restores /repo
cd /verif
for n in "$@"; do
  d=/verif/seeded/$n
  prop=$(echo $n | cut -d- -f1)
  if [ -n "$(git -C /repo status --porcelain)" ]; then echo "REPO DIRTY, refusing"; exit 2; fi
  git -C /repo apply $d/patch.diff || { echo "$n: patch does not apply"; continue; }
  H2VC_EVIDENCE_DIR=$d ./check $prop > $d/check.out 2>&1; rc=$?
  git -C /repo checkout -- .
  nv=$(grep -c "^VIOLATION" $d/check.out)
  echo "$n: exit=$rc violations=$nv $(grep -m3 'failed obligation\|missing obligation\|shape' $d/check.out | tr '\n' ' ' | cut -c1-300)"
done
