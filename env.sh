# source this: offline Go environment for building h2vc and loading /repo
export GOFLAGS=-mod=mod GOPROXY=off GOTOOLCHAIN=local GONOSUMDB=* GONOSUMCHECK=1 GOFLAGS=-mod=mod
export PATH=/root/go/pkg/mod/golang.org/toolchain@v0.0.1-go1.25.0.linux-amd64/bin:$PATH
