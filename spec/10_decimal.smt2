; Decimal value of the first i octets of a byte string (Horner form), RFC 7230 1*DIGIT.
;; fun decp (b bytes) (i Int) Int
(declare-fun spec.decp ((Array Int Int) Int Int Int) Int)
(assert (forall ((a (Array Int Int)) (o Int) (n Int)) (! (= (spec.decp a o n 0) 0) :pattern ((spec.decp a o n 0)))))
(assert (forall ((a (Array Int Int)) (o Int) (n Int) (i Int))
  (! (=> (> i 0) (= (spec.decp a o n i) (+ (* 10 (spec.decp a o n (- i 1))) (- (select a (+ o (- i 1))) 48))))
     :pattern ((spec.decp a o n i)))))
