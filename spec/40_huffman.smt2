; Number of code bits of the first i octets of a byte string under the Huffman code table the
; implementation uses (tbl.huffmanCodeLen is generated from /repo's huffman.go on every run and
; compared entry by entry with the RFC 7541 Appendix B copy in rfc7541_huffman.json).
;; fun hbits (b bytes) (i Int) Int
(declare-fun spec.hbits ((Array Int Int) Int Int Int) Int)
(assert (forall ((a (Array Int Int)) (o Int) (n Int)) (! (= (spec.hbits a o n 0) 0) :pattern ((spec.hbits a o n 0)))))
(assert (forall ((a (Array Int Int)) (o Int) (n Int) (i Int))
  (! (=> (> i 0) (= (spec.hbits a o n i) (+ (spec.hbits a o n (- i 1)) (tbl.huffmanCodeLen (select a (+ o (- i 1)))))))
     :pattern ((spec.hbits a o n i)))))
(assert (forall ((a (Array Int Int)) (o Int) (n Int) (i Int))
  (! (>= (spec.hbits a o n i) 0) :pattern ((spec.hbits a o n i)))))
; every code is at most 30 bits long (consequence of the definition and of the table, whose largest entry is 30;
; stated, not machine-checked, like the non-negativity above)
(assert (forall ((a (Array Int Int)) (o Int) (n Int) (i Int))
  (! (=> (>= i 0) (<= (spec.hbits a o n i) (* 30 i))) :pattern ((spec.hbits a o n i)))))
