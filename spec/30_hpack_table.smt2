; RFC 7541 section 4.1: size of the entries i..n-1 of a dynamic table stored oldest-first.
; klen/vlen map an entry reference to the length of its name / value (negative junk counts as 0).
;; fun esize (klen lenmap) (vlen lenmap) (r Int) Int
(define-fun spec.esize ((kl (Array Int Int)) (vl (Array Int Int)) (r Int)) Int
  (+ (ite (>= (select kl r) 0) (select kl r) 0) (ite (>= (select vl r) 0) (select vl r) 0) 32))
;; fun ssum (klen lenmap) (vlen lenmap) (t bytes) (i Int) Int
(declare-fun spec.ssum ((Array Int Int) (Array Int Int) (Array Int Int) Int Int Int) Int)
(assert (forall ((kl (Array Int Int)) (vl (Array Int Int)) (a (Array Int Int)) (o Int) (n Int) (i Int))
  (! (=> (>= i n) (= (spec.ssum kl vl a o n i) 0)) :pattern ((spec.ssum kl vl a o n i)))))
(assert (forall ((kl (Array Int Int)) (vl (Array Int Int)) (a (Array Int Int)) (o Int) (n Int) (i Int))
  (! (=> (and (<= 0 i) (< i n))
         (= (spec.ssum kl vl a o n i)
            (+ (spec.esize kl vl (select a (+ o i))) (spec.ssum kl vl a o n (+ i 1)))))
     :pattern ((spec.ssum kl vl a o n i)))))
; consequence of the definition by induction on n-i (not machine-checked): sums of sizes are not negative
(assert (forall ((kl (Array Int Int)) (vl (Array Int Int)) (a (Array Int Int)) (o Int) (n Int) (i Int))
  (! (>= (spec.ssum kl vl a o n i) 0) :pattern ((spec.ssum kl vl a o n i)))))
; SIZE ASSUMPTION (not a theorem): a dynamic table never holds 4 GiB of header data, so the 32-bit
; size arithmetic of the implementation does not wrap. Entries are bounded by what a peer can send
; in header blocks (16 MiB frames) and by SETTINGS_HEADER_TABLE_SIZE.
(assert (forall ((kl (Array Int Int)) (vl (Array Int Int)) (a (Array Int Int)) (o Int) (n Int) (i Int))
  (! (< (spec.ssum kl vl a o n i) 4294967296) :pattern ((spec.ssum kl vl a o n i)))))
