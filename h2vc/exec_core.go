package main

import (
	"fmt"
	"go/token"
	"go/types"
	"sort"
	"strings"

	"golang.org/x/tools/go/ssa"
)

type Obligation struct {
	Name   string
	Kind   string // post, pre, inv-entry, inv-preserve, dec, unwind, safe, ovf, assert, frame, shape, canary, cover
	Func   string
	Label  string
	Props  []string
	Goal   *Term // must be valid under Facts[:NFacts]
	NFacts int
	fx     *FuncExec
	Src    string
	// canary/cover obligations are expected to be refuted (sat)
	ExpectSat bool
	// results
	Status  string // proved, refuted, unknown
	Solver  string
	Secs    float64
	Model   string
	Output  string
	ModelVs []*Term
	Sub     []*Obligation // case split / per-return split
	Retried  bool
	Confirmed string // thorough tier: the other solver that also discharged it
	Brief    bool // listed as an open finding: short time limit, no second pass
	OnlySubs bool         // the obligation is the conjunction of Sub; it is not tried as a whole: tried when the whole obligation is not proved quickly
}

type FuncExec struct {
	eng   *Engine
	ts    *TermStore
	fn    *ssa.Function
	con   *Contract
	facts []*Term
	obls  []*Obligation
	entry *State
	// entry values of parameters (by name) and receiver
	params    map[string]Value
	paramList []string
	results   []Value
	unsup     []string
	notes     map[string]bool
	discover  int
	ord       map[string]int
	depth     int
	stack     []*ssa.Function
	wrapSigned bool
	noSafety  bool
	inputs    []inputVar // symbolic inputs for replay
	factSeen  map[int]bool
	callCount map[string]int
	exitReach *Term
	exitState *State
	loopHeads map[loopKey]*loopHeadInfo
	entries   map[*ssa.Function]*State
	deferred  map[*ssa.Function][]deferRec
	curDefer  map[*ssa.CallCommon]deferCall
	nonNil    map[int]bool
	allocs    []allocRec
	usesSpec  bool
	specUsed  map[string]bool
	loopAutos map[*ssa.BasicBlock][]autoInv
	stableRefs map[string][]*Term
	lastRets   []retInfo
	varCache   map[int][]*Term
	anchorHit  map[string]bool
	chanKey    map[int]string
	closures   map[int64]VFunc
	tables     map[string]bool
	loopPre    map[*ssa.BasicBlock]*State
	frames     map[*ssa.Function]*frameSpec
	invDepth   int
	inGlobalInv bool
	anchorExtra map[string]Value
	inLemma     bool
	noLemmas    bool
	lemmaDone   map[int]bool
	loopIter    map[*ssa.BasicBlock]*State
	inlinedCons map[*Contract]bool
	invSeen    map[int]bool
	loopFrames map[*ssa.BasicBlock][]string
	closureSeq int
	discLog    []discWrite
	discLogOn  int
}

// autoInv is an inferred, checked loop invariant about one integer cell.
type autoInv struct {
	label string
	eval  func(st *State) *Term
}

// autoInvariants infers bounds for counters: a cell changed in the loop only by
// adding a positive (negative) constant never drops below (rises above) its
// value at loop entry; a range loop's hidden index stays below the length.
func (fx *FuncExec) autoInvariants(fn *ssa.Function, l *Loop, entry *State, wc map[*ssa.Alloc]bool) []autoInv {
	ts := fx.ts
	var out []autoInv
	for _, a := range sortedAllocs(wc) {
		a := a
		if !fx.isCell(a) {
			continue
		}
		if _, ok := intTyOf(a.Type().(*types.Pointer).Elem()); !ok {
			continue
		}
		ev, ok := entry.cells[a].(VInt)
		if !ok {
			continue
		}
		dir := 0
		okPattern := true
		refs := a.Referrers()
		if refs == nil {
			continue
		}
		for _, r := range *refs {
			s, isStore := r.(*ssa.Store)
			if !isStore || !l.body[s.Block()] {
				continue
			}
			b, isBin := s.Val.(*ssa.BinOp)
			if !isBin || (b.Op != token.ADD && b.Op != token.SUB) {
				okPattern = false
				break
			}
			ld, isLoad := b.X.(*ssa.UnOp)
			c, isConst := b.Y.(*ssa.Const)
			if !isLoad || ld.Op != token.MUL || ld.X != ssa.Value(a) || !isConst || c.Value == nil {
				okPattern = false
				break
			}
			v := c.Int64()
			if b.Op == token.SUB {
				v = -v
			}
			d := 1
			if v < 0 {
				d = -1
			} else if v == 0 {
				d = 0
			}
			if dir != 0 && d != 0 && d != dir {
				okPattern = false
				break
			}
			if d != 0 {
				dir = d
			}
		}
		if !okPattern || dir == 0 {
			continue
		}
		e0 := ev.t
		name := a.Comment
		if dir > 0 {
			out = append(out, autoInv{"lower:" + name, func(st *State) *Term {
				if v, ok := st.cells[a].(VInt); ok {
					return ts.Le(e0, v.t)
				}
				return ts.True()
			}})
		} else {
			out = append(out, autoInv{"upper:" + name, func(st *State) *Term {
				if v, ok := st.cells[a].(VInt); ok {
					return ts.Le(v.t, e0)
				}
				return ts.True()
			}})
		}
		if a.Comment == "rangeindex" {
			// head: t = *r + 1; *r = t; if t < bound
			var bound ssa.Value
			for _, in := range l.head.Instrs {
				if b, ok := in.(*ssa.BinOp); ok && b.Op == token.LSS {
					bound = b.Y
				}
			}
			if bound != nil {
				if bv, ok := entry.vals[bound].(VInt); ok {
					bt := bv.t
					out = append(out, autoInv{"range:" + name, func(st *State) *Term {
						if v, ok := st.cells[a].(VInt); ok {
							return ts.Or(ts.Lt(v.t, bt), ts.Eq(v.t, ts.Int(-1)))
						}
						return ts.True()
					}})
				}
			}
		}
	}
	sort.Slice(out, func(i, j int) bool { return out[i].label < out[j].label })
	return out
}

type inputVar struct {
	name string
	val  Value
	typ  types.Type
}

func (fx *FuncExec) unsupported(msg string) {
	if fx.discover > 0 {
		return
	}
	for _, u := range fx.unsup {
		if u == msg {
			return
		}
	}
	fx.unsup = append(fx.unsup, msg)
}

func (fx *FuncExec) note(msg string) {
	if fx.notes == nil {
		fx.notes = map[string]bool{}
	}
	fx.notes[msg] = true
}

func (fx *FuncExec) addFact(reach, f *Term) {
	if fx.discover > 0 {
		return
	}
	t := fx.ts.Implies(reach, f)
	if t.isTrue() || t.bound {
		return // (facts about terms under a quantifier cannot be stated at top level)
	}
	if fx.factSeen[t.id] {
		return
	}
	fx.factSeen[t.id] = true
	fx.facts = append(fx.facts, t)
}

func (fx *FuncExec) curName() string {
	if len(fx.stack) <= 1 {
		return ""
	}
	var parts []string
	for _, f := range fx.stack[1:] {
		parts = append(parts, "in:"+fx.eng.displayName(f))
	}
	return strings.Join(parts, "/") + "/"
}

func (fx *FuncExec) addObl(kind, label, src string, reach, goal *Term) *Obligation {
	if fx.discover > 0 {
		return nil
	}
	if kind == "ovf" && fx.con != nil && fx.con.Opts["noovf"] == "true" {
		fx.note("ASSUMPTION: signed arithmetic in " + shortFuncName(fx.fn) + " is treated as mathematical (no overflow obligations generated)")
		return nil
	}
	g := fx.ts.Implies(reach, goal)
	base := kind + ":" + label
	if kind == "safe" || kind == "ovf" || kind == "pre" || kind == "unwind" {
		key := fx.curName() + base
		fx.ord[key]++
		if fx.ord[key] > 1 || kind != "unwind" {
			base = fmt.Sprintf("%s#%d", base, fx.ord[key])
		}
	}
	o := &Obligation{Name: fx.eng.topName(fx.fn) + "/" + fx.curName() + base, Kind: kind, Func: fx.eng.topName(fx.fn), Label: label,
		Goal: g, NFacts: len(fx.facts), fx: fx, Src: src}
	if fx.con != nil {
		o.Props = fx.con.Props
	}
	if g.isTrue() {
		o.Status = "proved"
		o.Solver = "simplifier"
	}
	if kind == "shape" {
		o.Status = "refuted"
		o.Solver = "contract"
	}
	fx.obls = append(fx.obls, o)
	return o
}

func shortFuncName(f *ssa.Function) string {
	if f == nil {
		return "?"
	}
	if f.Pkg == nil {
		return f.String() // instantiations of generic functions and other synthetic functions have no package
	}
	s := f.RelString(f.Pkg.Pkg)
	if f.Pkg != nil && strings.HasSuffix(f.Pkg.Pkg.Path(), "http2utils") {
		s = "http2utils." + s
	}
	return s
}

// ---------- loops ----------

type Loop struct {
	head    *ssa.BasicBlock
	body    map[*ssa.BasicBlock]bool
	ordinal int
	spec    *LoopSpec
	parent  *Loop
	pos     token.Pos // smallest source position of an instruction of the loop
}

// findLoops computes natural loops (merged per head), ordered by the source
// position of the head block's first positioned instruction.
func findLoops(fn *ssa.Function) []*Loop {
	byHead := map[*ssa.BasicBlock]*Loop{}
	for _, b := range fn.Blocks {
		for _, s := range b.Succs {
			if s.Dominates(b) {
				lp := byHead[s]
				if lp == nil {
					lp = &Loop{head: s, body: map[*ssa.BasicBlock]bool{s: true}}
					byHead[s] = lp
				}
				// add nodes reaching b without passing head
				stack := []*ssa.BasicBlock{b}
				for len(stack) > 0 {
					x := stack[len(stack)-1]
					stack = stack[:len(stack)-1]
					if lp.body[x] {
						continue
					}
					lp.body[x] = true
					stack = append(stack, x.Preds...)
				}
			}
		}
	}
	var loops []*Loop
	for _, lp := range byHead {
		loops = append(loops, lp)
	}
	pos := func(lp *Loop) token.Pos {
		best := token.NoPos
		for b := range lp.body {
			for _, in := range b.Instrs {
				if p := in.Pos(); p.IsValid() && (best == token.NoPos || p < best) {
					best = p
				}
			}
		}
		return best
	}
	sort.Slice(loops, func(i, j int) bool {
		pi, pj := pos(loops[i]), pos(loops[j])
		if pi != pj {
			return pi < pj
		}
		return loops[i].head.Index < loops[j].head.Index
	})
	for i, lp := range loops {
		lp.ordinal = i
		lp.pos = pos(lp)
	}
	// parents: smallest strictly containing loop
	for _, lp := range loops {
		for _, q := range loops {
			if q != lp && q.body[lp.head] && len(q.body) > len(lp.body) {
				if lp.parent == nil || len(q.body) < len(lp.parent.body) {
					lp.parent = q
				}
			}
		}
	}
	return loops
}

// ---------- node graph with unrolling ----------

type node struct {
	blk   *ssa.BasicBlock
	ctx   string // "L3=2;L5=0"
	iters map[*Loop]int
	in    []*edge
	out   []*edge
	idx   int
}

type edge struct {
	from, to *node
	succIdx  int
	// filled during execution
	cond  *Term
	state *State
	// back edge of an invariant loop (to == nil, loop != nil) or unwinding edge
	loop   *Loop
	unwind bool
}

type graph struct {
	nodes map[string]*node
	order []*node
	loops []*Loop
	headOf map[*ssa.BasicBlock]*Loop
}

func ctxString(it map[*Loop]int) string {
	var ps []string
	for l, k := range it {
		ps = append(ps, fmt.Sprintf("L%d=%d", l.ordinal, k))
	}
	sort.Strings(ps)
	return strings.Join(ps, ";")
}

func buildGraph(fn *ssa.Function, loops []*Loop) *graph {
	g := &graph{nodes: map[string]*node{}, loops: loops, headOf: map[*ssa.BasicBlock]*Loop{}}
	for _, l := range loops {
		g.headOf[l.head] = l
	}
	get := func(b *ssa.BasicBlock, it map[*Loop]int) (*node, bool) {
		k := fmt.Sprintf("%d|%s", b.Index, ctxString(it))
		if n, ok := g.nodes[k]; ok {
			return n, false
		}
		n := &node{blk: b, ctx: ctxString(it), iters: it}
		g.nodes[k] = n
		return n, true
	}
	entry, _ := get(fn.Blocks[0], map[*Loop]int{})
	work := []*node{entry}
	for len(work) > 0 {
		n := work[len(work)-1]
		work = work[:len(work)-1]
		for si, s := range n.blk.Succs {
			it := map[*Loop]int{}
			for l, k := range n.iters {
				// an unrolled loop's exit iteration stays part of the context: the code after the
				// loop is then executed once per exit, as separate paths, instead of on a merged state
				if l.body[s] || (l.spec != nil && l.spec.Unroll > 0 && l.parent == nil) {
					it[l] = k
				}
			}
			e := &edge{from: n, succIdx: si}
			if l := g.headOf[s]; l != nil {
				back := l.body[n.blk]
				unroll := l.spec != nil && l.spec.Unroll > 0
				if back {
					if unroll {
						k := n.iters[l] + 1
						if k >= l.spec.Unroll {
							e.loop, e.unwind = l, true
							n.out = append(n.out, e)
							continue
						}
						it[l] = k
					} else {
						e.loop = l
						n.out = append(n.out, e)
						continue
					}
				} else if unroll {
					it[l] = 0
				}
			}
			t, isNew := get(s, it)
			e.to = t
			n.out = append(n.out, e)
			t.in = append(t.in, e)
			if isNew {
				work = append(work, t)
			}
		}
	}
	// topological order (DFS post-order reversed)
	seen := map[*node]bool{}
	var post []*node
	var dfs func(n *node)
	dfs = func(n *node) {
		seen[n] = true
		for _, e := range n.out {
			if e.to != nil && !seen[e.to] {
				dfs(e.to)
			}
		}
		post = append(post, n)
	}
	dfs(entry)
	for i := len(post) - 1; i >= 0; i-- {
		post[i].idx = len(g.order)
		g.order = append(g.order, post[i])
	}
	return g
}

// ---------- running a body ----------

type retInfo struct {
	reach *Term
	state *State
	vals  []Value
}

// runBody symbolically executes fn from state st (already holding parameter
// values in st.vals) under reach; returns merged exit.
func (fx *FuncExec) runBody(fn *ssa.Function, st *State, reach *Term, con *Contract) (exitReach *Term, exit *State, results []Value) {
	ts := fx.ts
	fx.stack = append(fx.stack, fn)
	defer func() { fx.stack = fx.stack[:len(fx.stack)-1] }()
	loops := findLoops(fn)
	for _, l := range loops {
		if con != nil {
			l.spec = con.Loops[l.ordinal]
		}
	}
	if con != nil {
		for ord := range con.Loops {
			if ord >= len(loops) {
				o := fx.addObl("shape", fmt.Sprintf("loop%d", ord), "contract names a loop that no longer exists", reach, ts.False())
				_ = o
			}
		}
	}
	g := buildGraph(fn, loops)
	var rets []retInfo
	for _, n := range g.order {
		var conds []*Term
		var sts []*State
		if n.blk.Index == 0 && len(n.in) == 0 {
			conds, sts = []*Term{reach}, []*State{st}
		}
		for _, e := range n.in {
			if e.state == nil || e.cond.isFalse() {
				continue
			}
			conds = append(conds, e.cond)
			sts = append(sts, e.state)
		}
		if len(sts) == 0 {
			continue // unreachable
		}
		nreach := ts.Or(conds...)
		cur := fx.mergeStates(conds, sts)
		// phi nodes need the per-edge values: resolve before merging loses them
		for _, in := range n.blk.Instrs {
			phi, ok := in.(*ssa.Phi)
			if !ok {
				break
			}
			var pcs []*Term
			var pvs []Value
			for _, e := range n.in {
				if e.state == nil || e.cond.isFalse() {
					continue
				}
				// which predecessor index is e.from.blk?
				for pi, p := range n.blk.Preds {
					if p == e.from.blk {
						// several edges from the same block (switch) are rare; take the first match
						pcs = append(pcs, e.cond)
						pvs = append(pvs, fx.valueOf(e.state, phi.Edges[pi]))
						break
					}
				}
			}
			cur.vals[phi] = fx.mergeValues(pcs, pvs, phi.Type())
		}
		// loop head in invariant mode
		if l := g.headOf[n.blk]; l != nil && !(l.spec != nil && l.spec.Unroll > 0) {
			nreach, cur = fx.enterLoop(fn, l, nreach, cur, con)
			n.loopHeadState(l, cur)
			fx.loopHeads[loopKey{fn, l.head, n.ctx}] = &loopHeadInfo{state: cur.Clone(), reach: nreach}
		}
		// execute instructions
		alive := nreach
		terminated := false
		for _, in := range n.blk.Instrs {
			if _, ok := in.(*ssa.Phi); ok {
				continue
			}
			switch ins := in.(type) {
			case *ssa.If:
				c := fx.valueOf(cur, ins.Cond).(VBool).t
				fx.setEdge(n, 0, ts.And(alive, c), cur, fn, con)
				fx.setEdge(n, 1, ts.And(alive, ts.Not(c)), cur, fn, con)
				terminated = true
			case *ssa.Jump:
				fx.setEdge(n, 0, alive, cur, fn, con)
				terminated = true
			case *ssa.Return:
				var vs []Value
				for _, r := range ins.Results {
					vs = append(vs, fx.valueOf(cur, r))
				}
				rets = append(rets, retInfo{alive, cur, vs})
				terminated = true
			case *ssa.Panic:
				fx.panicObl(cur, alive, "panic", srcOf(fn, ins))
				terminated = true
			default:
				alive = fx.execInstr(fn, cur, alive, in)
			}
			if terminated || alive.isFalse() {
				break
			}
		}
	}
	fx.lastRets = rets
	if len(rets) == 0 {
		return ts.False(), st, nil
	}
	var rc []*Term
	var rs []*State
	for _, r := range rets {
		rc = append(rc, r.reach)
		rs = append(rs, r.state)
	}
	exit = fx.mergeStates(rc, rs)
	exitReach = ts.Or(rc...)
	nres := len(rets[0].vals)
	for i := 0; i < nres; i++ {
		var vs []Value
		for _, r := range rets {
			vs = append(vs, r.vals[i])
		}
		results = append(results, fx.mergeValues(rc, vs, fn.Signature.Results().At(i).Type()))
	}
	return exitReach, exit, results
}

func (n *node) loopHeadState(l *Loop, st *State) {}

type loopKey struct {
	fn  *ssa.Function
	blk *ssa.BasicBlock
	ctx string
}
type loopHeadInfo struct {
	state   *State
	reach   *Term
	measure *Term
	pre     *State // the state in which the loop was entered (before the write set was forgotten)
}

func (fx *FuncExec) setEdge(n *node, si int, cond *Term, st *State, fn *ssa.Function, con *Contract) {
	for _, e := range n.out {
		if e.succIdx != si {
			continue
		}
		if e.to == nil && e.loop != nil {
			if e.unwind {
				fx.addObl("unwind", fmt.Sprintf("loop%d", e.loop.ordinal), "loop unrolled "+fmt.Sprint(e.loop.spec.Unroll)+" times", cond, fx.ts.False())
				return
			}
			fx.backEdge(fn, e.loop, n, cond, st, con)
			return
		}
		e.cond = cond
		e.state = st.Clone()
		return
	}
}

func srcOf(fn *ssa.Function, in ssa.Instruction) string {
	p := in.Pos()
	if !p.IsValid() {
		// search referrers' positions? fall back to function position
		return ""
	}
	pos := fn.Prog.Fset.Position(p)
	return fmt.Sprintf("%s:%d", shortFile(pos.Filename), pos.Line)
}

func shortFile(f string) string {
	if i := strings.LastIndex(f, "/"); i >= 0 {
		return f[i+1:]
	}
	return f
}

// ---------- invariant loops ----------

// enterLoop checks the invariant on entry, havocs the loop's write set and
// assumes the invariant for an arbitrary iteration.
func (fx *FuncExec) enterLoop(fn *ssa.Function, l *Loop, reach *Term, st *State, con *Contract) (*Term, *State) {
	ts := fx.ts
	var invs []Clause
	if l.spec != nil {
		invs = l.spec.Invariants
	}
	fx.loopPre[l.head] = st.Clone()
	// 1. invariant holds on entry
	for _, c := range invs {
		t, err := fx.evalClause(c, &cenv{fx: fx, fn: fn, st: st, old: fx.entryFor(fn), con: con, body: true, binds: map[string]Value{}, loopPre: fx.loopPre[l.head], pos: l.pos, loopHead: l.head})
		if err != nil {
			fx.addObl("shape", "inv:"+c.Label, err.Error(), reach, ts.False())
			continue
		}
		fx.addObl("inv-entry", fmt.Sprintf("loop%d:%s", l.ordinal, c.Label), c.Expr, reach, t)
	}
	// 2. discover the write set by running the body from the entry state
	wc, wh := fx.discoverWrites(fn, l, st, con)
	autos := fx.autoInvariants(fn, l, st, wc)
	// 3. havoc
	h := st.Clone()
	h.wcells, h.wheap = map[*ssa.Alloc]bool{}, map[string]bool{}
	for k := range st.wcells {
		h.wcells[k] = true
	}
	for k := range st.wheap {
		h.wheap[k] = true
	}
	hreach := ts.And(reach, ts.Fresh(fmt.Sprintf("iter.L%d", l.ordinal), SBool))
	for _, a := range sortedAllocs(wc) {
		if _, ok := h.cells[a]; ok {
			h.cells[a] = fx.freshValue("lp."+a.Comment, a.Type().(*types.Pointer).Elem(), h)
			h.wcells[a] = true
		}
	}
	keys := make([]string, 0, len(wh))
	for k := range wh {
		keys = append(keys, k)
	}
	sort.Strings(keys)
	for _, k := range keys {
		if strings.HasPrefix(k, "ghost:") {
			gk := strings.TrimPrefix(k, "ghost:")
			switch h.ghost[gk].(type) {
			case VBool:
				h.ghost[gk] = VBool{ts.Fresh("lp."+gk, SBool)}
			case VInt:
				h.ghost[gk] = VInt{ts.Fresh("lp."+gk, SInt)}
			}
			h.wheap[k] = true
			continue
		}
		if k == allocKey {
			old := fx.heapGet(h, allocKey, SInt)
			nw := ts.Fresh("alloc.lp", SInt)
			fx.addFact(hreach, ts.Le(old, nw))
			fx.heapSet(h, allocKey, nw)
			continue
		}
		if refs, ok := fx.stableRefs[k]; ok {
			arr := fx.heapGet(h, k, fx.eng.heapSorts[k])
			for _, r := range refs {
				arr = ts.Store(arr, r, ts.Fresh("lp."+k, elemSort(fx.eng.heapSorts[k])))
			}
			fx.heapSet(h, k, arr)
			continue
		}
		fx.heapSet(h, k, ts.Fresh("lp."+k, fx.eng.heapSorts[k]))
	}
	// SSA temporaries defined inside the loop are recomputed each iteration; drop stale ones
	for v := range h.vals {
		if in, ok := v.(ssa.Instruction); ok && in.Block() != nil && l.body[in.Block()] && in.Parent() == fn {
			delete(h.vals, v)
		}
	}
	// 4. assume invariant
	for _, a := range autos {
		fx.addFact(hreach, a.eval(h))
	}
	fx.loopAutos[l.head] = autos
	// the function's own frame is an invariant of each of its loops: what the loop forgets about a heap array is
	// still known to agree with the entry value outside the `modifies` locations
	if fn == fx.fn && con != nil && con.Opts["noframe"] == "" && fx.discover == 0 {
		if fs := fx.frameSpecFor(fn, con); fs.err == nil {
			var fk []string
			for _, k := range keys {
				if k == allocKey || strings.HasPrefix(k, "ghost:") || strings.HasPrefix(k, "box:") || fs.exempt[k] {
					continue
				}
				if _, stable := fx.stableRefs[k]; stable {
					continue
				}
				fx.addFact(hreach, fx.frameFormula(fs, k, h.heap[k]))
				fk = append(fk, k)
			}
			if fx.loopFrames == nil {
				fx.loopFrames = map[*ssa.BasicBlock][]string{}
			}
			fx.loopFrames[l.head] = fk
		}
	}
	for _, c := range invs {
		t, err := fx.evalClause(c, &cenv{fx: fx, fn: fn, st: h, old: fx.entryFor(fn), con: con, body: true, binds: map[string]Value{}, loopPre: fx.loopPre[l.head], pos: l.pos, loopHead: l.head})
		if err == nil {
			fx.addFact(hreach, t)
		}
	}
	if fx.loopIter == nil {
		fx.loopIter = map[*ssa.BasicBlock]*State{}
	}
	fx.loopIter[l.head] = h.Clone()
	return hreach, h
}

func (fx *FuncExec) entryFor(fn *ssa.Function) *State {
	if e, ok := fx.entries[fn]; ok {
		return e
	}
	return fx.entry
}

func (fx *FuncExec) discoverWrites(fn *ssa.Function, l *Loop, st *State, con *Contract) (map[*ssa.Alloc]bool, map[string]bool) {
	wc := map[*ssa.Alloc]bool{}
	wh := map[string]bool{}
	fx.stableRefs = map[string][]*Term{}
	// static part: cells stored directly in loop blocks
	for b := range l.body {
		for _, in := range b.Instrs {
			if s, ok := in.(*ssa.Store); ok {
				if a, ok := s.Addr.(*ssa.Alloc); ok && fx.isCell(a) {
					wc[a] = true
				}
			}
		}
	}
	// dynamic part: run the loop body as a sub-function from the head, in discovery mode
	for round := 0; round < 4; round++ {
		start := st.Clone()
		start.wcells, start.wheap = map[*ssa.Alloc]bool{}, map[string]bool{}
		for _, a := range sortedAllocs(wc) {
			if _, ok := start.cells[a]; ok {
				start.cells[a] = fx.freshValue("dw", a.Type().(*types.Pointer).Elem(), nil)
			}
		}
		for _, k := range sortedStrings(wh) {
			if strings.HasPrefix(k, "ghost:") {
				continue
			}
			if s, ok := fx.eng.heapSorts[k]; ok {
				start.heap[k] = fx.ts.Fresh("dw."+k, s)
			}
		}
		fx.discover++
		nfacts, nobls := len(fx.facts), len(fx.obls)
		firstNew := fx.ts.next
		fx.discLog = fx.discLog[:0]
		fx.discLogOn++
		got := fx.runLoopBodyOnce(fn, l, start, con)
		fx.discLogOn--
		fx.facts, fx.obls = fx.facts[:nfacts], fx.obls[:nobls]
		fx.discover--
		log := append([]discWrite{}, fx.discLog...)
		grew := false
		for a := range got.wcells {
			if !wc[a] {
				wc[a] = true
				grew = true
			}
		}
		for k := range got.wheap {
			if !wh[k] {
				wh[k] = true
				grew = true
			}
		}
		if !grew {
			// final round: everything the loop writes was havocked at its start. A heap array whose
			// writes all go to objects named by loop-invariant terms only needs those objects forgotten.
			fx.stableRefs = fx.analyseWrites(log, start, firstNew)
			break
		}
	}
	return wc, wh
}

type discWrite struct {
	key string
	t   *Term
}

func (fx *FuncExec) analyseWrites(log []discWrite, start *State, firstNew int) map[string][]*Term {
	out := map[string][]*Term{}
	bad := map[string]bool{}
	var fresh func(t *Term, seen map[int]bool) bool
	fresh = func(t *Term, seen map[int]bool) bool {
		if seen[t.id] {
			return false
		}
		seen[t.id] = true
		if t.op == "var" && (t.id > firstNew || strings.HasPrefix(t.name, "dw")) {
			return true
		}
		for _, a := range t.args {
			if fresh(a, seen) {
				return true
			}
		}
		return false
	}
	for _, w := range log {
		if w.key == allocKey || bad[w.key] {
			continue
		}
		base, ok := start.heap[w.key]
		if !ok {
			base = fx.ts.Var("H0!"+w.key, fx.eng.heapSorts[w.key])
		}
		seenT := map[int]bool{}
		var walk func(t *Term) bool
		walk = func(t *Term) bool {
			if t == base {
				return true
			}
			if seenT[t.id] {
				return true
			}
			seenT[t.id] = true
			switch t.op {
			case "store":
				if fresh(t.args[1], map[int]bool{}) {
					return false
				}
				dup := false
				for _, r := range out[w.key] {
					if r == t.args[1] {
						dup = true
					}
				}
				if !dup {
					out[w.key] = append(out[w.key], t.args[1])
				}
				return walk(t.args[0])
			case "ite":
				return walk(t.args[1]) && walk(t.args[2])
			}
			return false
		}
		if !walk(w.t) || len(out[w.key]) > 8 {
			bad[w.key] = true
			delete(out, w.key)
		}
	}
	return out
}

// runLoopBodyOnce executes the blocks of l once starting at the head and
// returns a state whose write log is the union over all paths.
func (fx *FuncExec) runLoopBodyOnce(fn *ssa.Function, l *Loop, st *State, con *Contract) *State {
	ts := fx.ts
	acc := NewState()
	type pend struct {
		conds []*Term
		sts   []*State
	}
	in := map[*ssa.BasicBlock]*pend{l.head: {[]*Term{ts.True()}, []*State{st}}}
	// order blocks of the loop by reverse post-order restricted to the body, ignoring back edges to head
	var order []*ssa.BasicBlock
	seen := map[*ssa.BasicBlock]bool{}
	var dfs func(b *ssa.BasicBlock)
	dfs = func(b *ssa.BasicBlock) {
		seen[b] = true
		for _, s := range b.Succs {
			if l.body[s] && s != l.head && !seen[s] && !s.Dominates(b) {
				dfs(s)
			}
		}
		order = append(order, b)
	}
	dfs(l.head)
	for i := len(order) - 1; i >= 0; i-- {
		b := order[i]
		p := in[b]
		if p == nil {
			continue
		}
		cur := fx.mergeStates(p.conds, p.sts)
		for _, instr := range b.Instrs {
			switch ins := instr.(type) {
			case *ssa.Phi:
				cur.vals[ins] = fx.freshValue("phi", ins.Type(), nil)
			case *ssa.If, *ssa.Jump, *ssa.Return, *ssa.Panic:
			default:
				fx.execInstr(fn, cur, ts.True(), instr)
			}
		}
		for a := range cur.wcells {
			acc.wcells[a] = true
		}
		for k := range cur.wheap {
			acc.wheap[k] = true
		}
		for _, s := range b.Succs {
			if l.body[s] && s != l.head && !s.Dominates(b) {
				q := in[s]
				if q == nil {
					q = &pend{}
					in[s] = q
				}
				q.conds = append(q.conds, ts.Fresh("dwc", SBool))
				q.sts = append(q.sts, cur)
			}
		}
	}
	return acc
}

func (fx *FuncExec) backEdge(fn *ssa.Function, l *Loop, n *node, cond *Term, st *State, con *Contract) {
	for _, a := range fx.loopAutos[l.head] {
		fx.addObl("inv-preserve", fmt.Sprintf("loop%d:auto:%s", l.ordinal, a.label), "inferred counter bound", cond, a.eval(st))
	}
	if fn == fx.fn && con != nil {
		if fs := fx.frameSpecFor(fn, con); fs.err == nil {
			for _, k := range fx.loopFrames[l.head] {
				if cur, ok := st.heap[k]; ok {
					fx.addObl("inv-preserve", fmt.Sprintf("loop%d:auto:frame:%s", l.ordinal, k), "the function's frame holds at every iteration", cond, fx.frameFormula(fs, k, cur))
				}
			}
		}
	}
	if l.spec == nil {
		return
	}
	where := ""
	bodyPos := token.NoPos
	if n != nil && n.blk != nil {
		// the last positioned instruction before the jump back says which `continue` (or loop end) this is
		for b := n.blk; b != nil && where == ""; {
			for i := len(b.Instrs) - 1; i >= 0; i-- {
				if p := b.Instrs[i].Pos(); p.IsValid() {
					pos := fn.Prog.Fset.Position(p)
					bodyPos = p
					where = fmt.Sprintf(" [back edge after %s:%d]", shortFile(pos.Filename), pos.Line)
					break
				}
			}
			if where == "" && len(b.Preds) == 1 {
				b = b.Preds[0]
			} else {
				break
			}
		}
	}
	// a loop with several ways back to its head (continue statements) gets one obligation per way, named after the
	// last call made before jumping back, so that each can be told apart without line numbers
	site := ""
	nback := 0
	for _, p := range l.head.Preds {
		if l.body[p] {
			nback++
		}
	}
	if nback > 1 && n != nil && n.blk != nil {
		site = "@top"
	search:
		for b := n.blk; b != nil; {
			for i := len(b.Instrs) - 1; i >= 0; i-- {
				if call, ok := b.Instrs[i].(*ssa.Call); ok {
					var cal *ssa.Function
					if sc := call.Call.StaticCallee(); sc != nil {
						cal = sc
					}
					nm, ord := fx.callSiteName(fn, &call.Call, cal)
					if nm == "" && cal == nil {
						continue
					}
					site = fmt.Sprintf("@%s#%d", nm, ord)
					break search
				}
			}
			if len(b.Preds) == 1 && l.body[b.Preds[0]] && b != l.head {
				b = b.Preds[0]
			} else {
				break
			}
		}
	}
	for _, c := range l.spec.Invariants {
		t, err := fx.evalClause(c, &cenv{fx: fx, fn: fn, st: st, old: fx.entryFor(fn), con: con, body: true, binds: map[string]Value{}, loopPre: fx.loopPre[l.head], pos: l.pos, loopHead: l.head})
		if err != nil {
			fx.addObl("shape", "inv:"+c.Label, err.Error(), cond, fx.ts.False())
			continue
		}
		fx.addObl("inv-preserve", fmt.Sprintf("loop%d:%s%s", l.ordinal, c.Label, site), c.Expr+where, cond, t)
	}
	// step clauses may name locals of the loop body: resolve names where the jump back happens
	stepPos := l.pos
	if bodyPos.IsValid() {
		stepPos = bodyPos
	}
	for _, c := range l.spec.Steps {
		t, err := fx.evalClause(c, &cenv{fx: fx, fn: fn, st: st, old: fx.entryFor(fn), con: con, body: true, binds: map[string]Value{}, loopPre: fx.loopPre[l.head], loopIter: fx.loopIter[l.head], pos: stepPos, loopHead: l.head})
		if err != nil {
			fx.addObl("shape", "step:"+c.Label, err.Error(), cond, fx.ts.False())
			continue
		}
		fx.addObl("inv-preserve", fmt.Sprintf("loop%d:step:%s%s", l.ordinal, c.Label, site), c.Expr+where, cond, t)
	}
	if d := l.spec.Decreases; d != nil {
		// find the head state of the matching context
		var hi *loopHeadInfo
		for k, v := range fx.loopHeads {
			if k.fn == fn && k.blk == l.head {
				hi = v
			}
		}
		if hi == nil {
			return
		}
		m0, err0 := fx.evalInt(*d, &cenv{fx: fx, fn: fn, st: hi.state, old: fx.entryFor(fn), con: con, body: true, binds: map[string]Value{}})
		m1, err1 := fx.evalInt(*d, &cenv{fx: fx, fn: fn, st: st, old: fx.entryFor(fn), con: con, body: true, binds: map[string]Value{}})
		if err0 != nil || err1 != nil {
			fx.addObl("shape", "dec", fmt.Sprint(err0, err1), cond, fx.ts.False())
			return
		}
		fx.addObl("dec", fmt.Sprintf("loop%d", l.ordinal), d.Expr, cond, fx.ts.And(fx.ts.Lt(m1, m0), fx.ts.Le(fx.ts.Int(0), m1)))
	}
}

func (fx *FuncExec) panicObl(st *State, reach *Term, what, src string) {
	if fx.noSafety {
		return
	}
	fx.addObl("safe", what, src, reach, fx.ts.False())
}

// safety obligation: cond must hold when reached; afterwards it is assumed.
func (fx *FuncExec) safe(reach *Term, what, src string, cond *Term) *Term {
	if cond.isTrue() {
		return reach
	}
	if !fx.noSafety {
		fx.addObl("safe", what, src, reach, cond)
	}
	return fx.ts.And(reach, cond)
}
