package main

// Hash-consed SMT term DAG with light simplification and range tracking.
// Two families of scalar sorts are used: Int (mathematical integers, "int mode")
// and (_ BitVec w) ("bv mode"). Arrays are always indexed by Int in int mode and
// by (_ BitVec 64) in bv mode.

import (
	"fmt"
	"math/big"
	"sort"
	"strings"
)

type Term struct {
	id    int
	op    string // "int","bool","var","bv", or an SMT operator name
	args  []*Term
	sort  string
	name  string   // var name, or extra (e.g. "(_ extract 7 0)")
	ival  *big.Int // int / bv constant; constant part of a lin term
	coefs []*big.Int // lin: coefficient per arg
	bval  bool
	bound bool // mentions a quantifier-bound variable
	// structural range knowledge for Int terms (nil = unknown)
	lo, hi *big.Int
	tz     uint // known trailing zero bits (value is a multiple of 2^tz)
	bvars  []*Term
	pat    []*Term // quantifier patterns
}

const (
	SBool = "Bool"
	SInt  = "Int"
	SArr  = "(Array Int Int)"
	SArr2 = "(Array Int (Array Int Int))"
	SArrB = "(Array Int Bool)"
)

func bvSort(w int) string { return fmt.Sprintf("(_ BitVec %d)", w) }
func isBV(s string) bool  { return strings.HasPrefix(s, "(_ BitVec") }
func bvWidth(s string) int {
	var w int
	fmt.Sscanf(s, "(_ BitVec %d)", &w)
	return w
}

type TermStore struct {
	tab   map[string]*Term
	next  int
	vars  map[string]*Term // declared constants by name
	funs  map[string]string // declared uninterpreted function -> declaration line
	fresh map[string]int
}

func NewTermStore() *TermStore {
	return &TermStore{tab: map[string]*Term{}, vars: map[string]*Term{}, funs: map[string]string{}, fresh: map[string]int{}}
}

func (ts *TermStore) intern(t *Term) *Term {
	var sb strings.Builder
	sb.WriteString(t.op)
	sb.WriteByte('|')
	sb.WriteString(t.sort)
	sb.WriteByte('|')
	sb.WriteString(t.name)
	if t.ival != nil {
		sb.WriteByte('#')
		sb.WriteString(t.ival.String())
	}
	if t.op == "bool" {
		if t.bval {
			sb.WriteString("T")
		} else {
			sb.WriteString("F")
		}
	}
	for _, a := range t.args {
		fmt.Fprintf(&sb, ",%d", a.id)
	}
	for _, c := range t.coefs {
		sb.WriteString("*" + c.String())
	}
	for _, a := range t.bvars {
		fmt.Fprintf(&sb, ";%d", a.id)
	}
	for _, a := range t.pat {
		fmt.Fprintf(&sb, "!%d", a.id)
	}
	k := sb.String()
	if o, ok := ts.tab[k]; ok {
		return o
	}
	ts.next++
	t.id = ts.next
	for _, a := range t.args {
		if a.bound {
			t.bound = true
		}
	}
	ts.tab[k] = t
	return t
}

var bigZero = big.NewInt(0)
var bigOne = big.NewInt(1)

func pow2(n uint) *big.Int { return new(big.Int).Lsh(bigOne, n) }

func (ts *TermStore) Int(v int64) *Term { return ts.BigInt(big.NewInt(v)) }
func (ts *TermStore) BigInt(v *big.Int) *Term {
	c := new(big.Int).Set(v)
	t := &Term{op: "int", sort: SInt, ival: c, lo: c, hi: c}
	if c.Sign() != 0 {
		t.tz = c.TrailingZeroBits()
	} else {
		t.tz = 200
	}
	return ts.intern(t)
}
func (ts *TermStore) BV(v *big.Int, w int) *Term {
	c := new(big.Int).Mod(v, pow2(uint(w)))
	return ts.intern(&Term{op: "bv", sort: bvSort(w), ival: c})
}
func (ts *TermStore) Bool(b bool) *Term { return ts.intern(&Term{op: "bool", sort: SBool, bval: b}) }
func (ts *TermStore) True() *Term       { return ts.Bool(true) }
func (ts *TermStore) False() *Term      { return ts.Bool(false) }

// Var returns the declared constant with that name (creating it).
func (ts *TermStore) Var(name, sort string) *Term {
	if v, ok := ts.vars[name]; ok {
		if v.sort != sort {
			panic("sort clash for " + name + ": " + v.sort + " vs " + sort)
		}
		return v
	}
	t := ts.intern(&Term{op: "var", sort: sort, name: name})
	ts.vars[name] = t
	return t
}

// Fresh makes a new constant with a unique name based on hint.
func (ts *TermStore) Fresh(hint, sort string) *Term {
	hint = sanitize(hint)
	ts.fresh[hint]++
	return ts.Var(fmt.Sprintf("%s!%d", hint, ts.fresh[hint]), sort)
}

// Bound makes a bound variable (only meaningful under a quantifier).
func (ts *TermStore) Bound(name, sort string) *Term {
	ts.fresh["bv$"+name]++
	t := ts.intern(&Term{op: "bvar", sort: sort, name: fmt.Sprintf("%s?%d", sanitize(name), ts.fresh["bv$"+name])})
	t.bound = true
	return t
}

func sanitize(s string) string {
	var sb strings.Builder
	for _, r := range s {
		switch {
		case r >= 'a' && r <= 'z', r >= 'A' && r <= 'Z', r >= '0' && r <= '9', r == '_', r == '.', r == '$':
			sb.WriteRune(r)
		default:
			sb.WriteByte('_')
		}
	}
	if sb.Len() == 0 {
		return "v"
	}
	return sb.String()
}

func (t *Term) isInt() bool   { return t.op == "int" }
func (t *Term) isTrue() bool  { return t.op == "bool" && t.bval }
func (t *Term) isFalse() bool { return t.op == "bool" && !t.bval }
func (t *Term) isConst() bool { return t.op == "int" || t.op == "bool" || t.op == "bv" }

func (ts *TermStore) mk(op, sort string, args ...*Term) *Term {
	return ts.intern(&Term{op: op, sort: sort, args: args})
}

// App applies a declared or defined function symbol.
func (ts *TermStore) App(fn, sort string, args ...*Term) *Term {
	return ts.intern(&Term{op: "app", name: fn, sort: sort, args: args})
}

// ---------- boolean ----------

func (ts *TermStore) Not(a *Term) *Term {
	if a.op == "bool" {
		return ts.Bool(!a.bval)
	}
	if a.op == "not" {
		return a.args[0]
	}
	return ts.mk("not", SBool, a)
}

func (ts *TermStore) And(as ...*Term) *Term {
	var out []*Term
	seen := map[int]bool{}
	for _, a := range as {
		if a == nil || a.isTrue() {
			continue
		}
		if a.isFalse() {
			return a
		}
		if a.op == "and" {
			for _, b := range a.args {
				if !seen[b.id] {
					seen[b.id] = true
					out = append(out, b)
				}
			}
			continue
		}
		if !seen[a.id] {
			seen[a.id] = true
			out = append(out, a)
		}
	}
	for _, a := range out {
		if a.op == "not" && seen[a.args[0].id] {
			return ts.False()
		}
	}
	if len(out) == 0 {
		return ts.True()
	}
	if len(out) == 1 {
		return out[0]
	}
	return ts.mk("and", SBool, out...)
}

func (ts *TermStore) Or(as ...*Term) *Term {
	var out []*Term
	seen := map[int]bool{}
	for _, a := range as {
		if a == nil || a.isFalse() {
			continue
		}
		if a.isTrue() {
			return a
		}
		if a.op == "or" {
			for _, b := range a.args {
				if !seen[b.id] {
					seen[b.id] = true
					out = append(out, b)
				}
			}
			continue
		}
		if !seen[a.id] {
			seen[a.id] = true
			out = append(out, a)
		}
	}
	for _, a := range out {
		if a.op == "not" && seen[a.args[0].id] {
			return ts.True()
		}
	}
	if len(out) == 0 {
		return ts.False()
	}
	if len(out) == 1 {
		return out[0]
	}
	return ts.mk("or", SBool, out...)
}

func (ts *TermStore) Implies(a, b *Term) *Term {
	if a.isTrue() {
		return b
	}
	if a.isFalse() || b.isTrue() {
		return ts.True()
	}
	if b.isFalse() {
		return ts.Not(a)
	}
	return ts.mk("=>", SBool, a, b)
}

func (ts *TermStore) Ite(c, a, b *Term) *Term {
	if c.isTrue() {
		return a
	}
	if c.isFalse() {
		return b
	}
	if a == b {
		return a
	}
	if a.sort != b.sort {
		panic(fmt.Sprintf("ite sort mismatch %s vs %s", a.sort, b.sort))
	}
	if a.sort == SBool {
		if a.isTrue() && b.isFalse() {
			return c
		}
		if a.isFalse() && b.isTrue() {
			return ts.Not(c)
		}
		if a.isTrue() {
			return ts.Or(c, b)
		}
		if b.isFalse() {
			return ts.And(c, a)
		}
		if a.isFalse() {
			return ts.And(ts.Not(c), b)
		}
		if b.isTrue() {
			return ts.Or(ts.Not(c), a)
		}
	}
	// ite(c, x, ite(c, y, z)) -> ite(c, x, z)
	if b.op == "ite" && b.args[0] == c {
		b = b.args[2]
	}
	if a.op == "ite" && a.args[0] == c {
		a = a.args[1]
	}
	t := ts.mk("ite", a.sort, c, a, b)
	if a.sort == SInt && t.lo == nil && t.hi == nil {
		if a.lo != nil && b.lo != nil {
			t.lo = minBig(a.lo, b.lo)
		}
		if a.hi != nil && b.hi != nil {
			t.hi = maxBig(a.hi, b.hi)
		}
		t.tz = a.tz
		if b.tz < t.tz {
			t.tz = b.tz
		}
	}
	return t
}

func minBig(a, b *big.Int) *big.Int {
	if a.Cmp(b) <= 0 {
		return a
	}
	return b
}
func maxBig(a, b *big.Int) *big.Int {
	if a.Cmp(b) >= 0 {
		return a
	}
	return b
}

func (ts *TermStore) Eq(a, b *Term) *Term {
	if a == b {
		return ts.True()
	}
	if a.sort != b.sort {
		panic(fmt.Sprintf("eq sort mismatch %s vs %s (%s / %s)", a.sort, b.sort, a.String(), b.String()))
	}
	if a.isConst() && b.isConst() {
		switch a.op {
		case "int", "bv":
			return ts.Bool(a.ival.Cmp(b.ival) == 0)
		case "bool":
			return ts.Bool(a.bval == b.bval)
		}
	}
	if a.sort == SBool {
		if a.isTrue() {
			return b
		}
		if b.isTrue() {
			return a
		}
		if a.isFalse() {
			return ts.Not(b)
		}
		if b.isFalse() {
			return ts.Not(a)
		}
	}
	if a.sort == SInt {
		if a.hi != nil && b.lo != nil && a.hi.Cmp(b.lo) < 0 {
			return ts.False()
		}
		if b.hi != nil && a.lo != nil && b.hi.Cmp(a.lo) < 0 {
			return ts.False()
		}
		if a.op == "lin" || b.op == "lin" {
			d := ts.Sub(a, b)
			if d.isInt() {
				return ts.Bool(d.ival.Sign() == 0)
			}
		}
	}
	if a.id > b.id {
		a, b = b, a
	}
	return ts.mk("=", SBool, a, b)
}

func (ts *TermStore) Ne(a, b *Term) *Term { return ts.Not(ts.Eq(a, b)) }

// liftIte applies f to the constant leaves of an ite tree (at most 64 leaves);
// ok is false when t is not such a tree.
func (ts *TermStore) liftIte(t *Term, f func(*Term) *Term) (*Term, bool) {
	n := 0
	var check func(t *Term) bool
	check = func(t *Term) bool {
		if t.op == "ite" {
			return check(t.args[1]) && check(t.args[2])
		}
		n++
		return t.isInt() && n <= 64
	}
	if t.op != "ite" || !check(t) {
		return nil, false
	}
	var rec func(t *Term) *Term
	rec = func(t *Term) *Term {
		if t.op == "ite" {
			return ts.Ite(t.args[0], rec(t.args[1]), rec(t.args[2]))
		}
		return f(t)
	}
	return rec(t), true
}

// ---------- Int arithmetic ----------
//
// Sums are kept in a canonical linear form: op "lin" with atoms in args,
// integer coefficients in coefs and the constant in ival. This makes
// syntactic equality coincide with linear equality (x+1-1 is x), which the
// select/store simplifier, the quantifier patterns and the range analysis rely on.

type linExpr struct {
	atoms map[*Term]*big.Int
	c     *big.Int
}

func (ts *TermStore) linOf(t *Term) linExpr {
	le := linExpr{map[*Term]*big.Int{}, new(big.Int)}
	switch t.op {
	case "int":
		le.c.Set(t.ival)
	case "lin":
		le.c.Set(t.ival)
		for i, a := range t.args {
			le.atoms[a] = new(big.Int).Set(t.coefs[i])
		}
	default:
		le.atoms[t] = big.NewInt(1)
	}
	return le
}

func (le linExpr) addScaled(o linExpr, k *big.Int) {
	le.c.Add(le.c, new(big.Int).Mul(o.c, k))
	for a, c := range o.atoms {
		v, ok := le.atoms[a]
		if !ok {
			v = new(big.Int)
			le.atoms[a] = v
		}
		v.Add(v, new(big.Int).Mul(c, k))
		if v.Sign() == 0 {
			delete(le.atoms, a)
		}
	}
}

func (ts *TermStore) fromLin(le linExpr) *Term {
	if len(le.atoms) == 0 {
		return ts.BigInt(le.c)
	}
	atoms := make([]*Term, 0, len(le.atoms))
	for a := range le.atoms {
		atoms = append(atoms, a)
	}
	sort.Slice(atoms, func(i, j int) bool { return atoms[i].id < atoms[j].id })
	if len(atoms) == 1 && le.c.Sign() == 0 && le.atoms[atoms[0]].Cmp(bigOne) == 0 {
		return atoms[0]
	}
	coefs := make([]*big.Int, len(atoms))
	for i, a := range atoms {
		coefs[i] = le.atoms[a]
	}
	t := &Term{op: "lin", sort: SInt, args: atoms, coefs: coefs, ival: new(big.Int).Set(le.c)}
	// range and trailing zeros
	lo, hi := new(big.Int).Set(le.c), new(big.Int).Set(le.c)
	okLo, okHi := true, true
	tz := uint(200)
	if le.c.Sign() != 0 {
		tz = le.c.TrailingZeroBits()
	}
	for i, a := range atoms {
		k := coefs[i]
		var alo, ahi *big.Int
		if k.Sign() > 0 {
			alo, ahi = a.lo, a.hi
		} else {
			alo, ahi = a.hi, a.lo
		}
		if alo != nil && okLo {
			lo.Add(lo, new(big.Int).Mul(k, alo))
		} else {
			okLo = false
		}
		if ahi != nil && okHi {
			hi.Add(hi, new(big.Int).Mul(k, ahi))
		} else {
			okHi = false
		}
		z := k.TrailingZeroBits() + a.tz
		if a.tz >= 200 {
			z = 200
		}
		if z < tz {
			tz = z
		}
	}
	if okLo {
		t.lo = lo
	}
	if okHi {
		t.hi = hi
	}
	t.tz = tz
	return ts.intern(t)
}

func (ts *TermStore) Add(a, b *Term) *Term {
	if a.isInt() && a.ival.Sign() == 0 {
		return b
	}
	if b.isInt() && b.ival.Sign() == 0 {
		return a
	}
	if b.isInt() {
		if r, ok := ts.liftIte(a, func(x *Term) *Term { return ts.Add(x, b) }); ok {
			return r
		}
	}
	if a.isInt() {
		if r, ok := ts.liftIte(b, func(x *Term) *Term { return ts.Add(a, x) }); ok {
			return r
		}
	}
	le := ts.linOf(a)
	le.addScaled(ts.linOf(b), bigOne)
	return ts.fromLin(le)
}

func (ts *TermStore) Neg(a *Term) *Term { return ts.Sub(ts.Int(0), a) }

func (ts *TermStore) Sub(a, b *Term) *Term {
	if b.isInt() && b.ival.Sign() == 0 {
		return a
	}
	if b.isInt() {
		if r, ok := ts.liftIte(a, func(x *Term) *Term { return ts.Sub(x, b) }); ok {
			return r
		}
	}
	if a.isInt() {
		if r, ok := ts.liftIte(b, func(x *Term) *Term { return ts.Sub(a, x) }); ok {
			return r
		}
	}
	le := ts.linOf(a)
	le.addScaled(ts.linOf(b), big.NewInt(-1))
	return ts.fromLin(le)
}

func (ts *TermStore) Mul(a, b *Term) *Term {
	if a.isInt() {
		a, b = b, a
	}
	if b.isInt() {
		le := linExpr{map[*Term]*big.Int{}, new(big.Int)}
		le.addScaled(ts.linOf(a), b.ival)
		return ts.fromLin(le)
	}
	if a.id > b.id {
		a, b = b, a
	}
	t := &Term{op: "*", sort: SInt, args: []*Term{a, b}}
	if a.lo != nil && a.hi != nil && b.lo != nil && b.hi != nil {
		c := []*big.Int{new(big.Int).Mul(a.lo, b.lo), new(big.Int).Mul(a.lo, b.hi), new(big.Int).Mul(a.hi, b.lo), new(big.Int).Mul(a.hi, b.hi)}
		t.lo, t.hi = c[0], c[0]
		for _, x := range c[1:] {
			t.lo = minBig(t.lo, x)
			t.hi = maxBig(t.hi, x)
		}
	}
	return ts.intern(t)
}

// linCoef returns the coefficient of atom v in t and t minus that part.
func (ts *TermStore) linCoef(t, v *Term) (*big.Int, *Term) {
	le := ts.linOf(t)
	k, ok := le.atoms[v]
	if !ok {
		return new(big.Int), t
	}
	delete(le.atoms, v)
	return k, ts.fromLin(le)
}

// Div is SMT-LIB integer division (floor for positive divisor). Callers that
// need Go's truncating division build it with ite.
func (ts *TermStore) Div(a, b *Term) *Term {
	if b.isInt() && b.ival.Sign() > 0 {
		if r, ok := ts.liftIte(a, func(x *Term) *Term { return ts.Div(x, b) }); ok {
			return r
		}
	}
	if a.isInt() && b.isInt() && b.ival.Sign() > 0 {
		q := new(big.Int)
		m := new(big.Int)
		q.DivMod(a.ival, b.ival, m) // Euclidean
		return ts.BigInt(q)
	}
	// floor((floor(x/c1))/c2) = floor(x/(c1*c2)) for positive constants
	if b.isInt() && b.ival.Sign() > 0 && a.op == "div" && a.args[1].isInt() && a.args[1].ival.Sign() > 0 {
		return ts.Div(a.args[0], ts.BigInt(new(big.Int).Mul(a.args[1].ival, b.ival)))
	}
	if b.isInt() && b.ival.Cmp(bigOne) == 0 {
		return a
	}
	t := &Term{op: "div", sort: SInt, args: []*Term{a, b}}
	if b.isInt() && b.ival.Sign() > 0 {
		if a.lo != nil {
			q := new(big.Int)
			q.DivMod(a.lo, b.ival, new(big.Int))
			t.lo = q
		}
		if a.hi != nil {
			q := new(big.Int)
			q.DivMod(a.hi, b.ival, new(big.Int))
			t.hi = q
		}
		// a within [0, b) -> 0
		if a.lo != nil && a.hi != nil && a.lo.Sign() >= 0 && a.hi.Cmp(b.ival) < 0 {
			return ts.Int(0)
		}
	}
	return ts.intern(t)
}

func (ts *TermStore) Mod(a, b *Term) *Term {
	if b.isInt() && b.ival.Sign() > 0 {
		if r, ok := ts.liftIte(a, func(x *Term) *Term { return ts.Mod(x, b) }); ok {
			return r
		}
	}
	if a.isInt() && b.isInt() && b.ival.Sign() > 0 {
		m := new(big.Int)
		new(big.Int).DivMod(a.ival, b.ival, m)
		return ts.BigInt(m)
	}
	if b.isInt() && b.ival.Sign() > 0 {
		if a.lo != nil && a.hi != nil && a.lo.Sign() >= 0 && a.hi.Cmp(b.ival) < 0 {
			return a
		}
		// multiple of 2^k mod 2^j with j<=k is 0
		if b.ival.TrailingZeroBits() < 200 && new(big.Int).Set(pow2(b.ival.TrailingZeroBits())).Cmp(b.ival) == 0 && a.tz >= b.ival.TrailingZeroBits() {
			return ts.Int(0)
		}
		// drop multiples of the modulus from a linear form: (c + k*m + sum) mod m
		if a.op == "lin" {
			le := ts.linOf(a)
			changed := false
			nc := new(big.Int).Mod(le.c, b.ival)
			if nc.Cmp(le.c) != 0 {
				le.c = nc
				changed = true
			}
			for at, k := range le.atoms {
				nk := new(big.Int).Mod(k, b.ival)
				if nk.Cmp(k) != 0 {
					changed = true
					if nk.Sign() == 0 {
						delete(le.atoms, at)
					} else {
						le.atoms[at] = nk
					}
				}
			}
			if changed {
				return ts.Mod(ts.fromLin(le), b)
			}
		}
		// (mod (mod x m1) m2) where m2 | m1
		if a.op == "mod" && a.args[1].isInt() {
			m1 := a.args[1].ival
			if new(big.Int).Mod(m1, b.ival).Sign() == 0 {
				return ts.Mod(a.args[0], b)
			}
		}
	}
	t := &Term{op: "mod", sort: SInt, args: []*Term{a, b}}
	if b.isInt() && b.ival.Sign() > 0 {
		t.lo = bigZero
		t.hi = new(big.Int).Sub(b.ival, bigOne)
		if a.hi != nil && a.lo != nil && a.lo.Sign() >= 0 && a.hi.Cmp(t.hi) < 0 {
			t.hi = a.hi
		}
		// x mod 2^k keeps trailing zeros
		t.tz = a.tz
		if t.tz > 199 {
			t.tz = 199
		}
	}
	return ts.intern(t)
}

func (ts *TermStore) cmpConst(op string, a, b *Term) (*Term, bool) {
	if a.isInt() && b.isInt() {
		c := a.ival.Cmp(b.ival)
		switch op {
		case "<":
			return ts.Bool(c < 0), true
		case "<=":
			return ts.Bool(c <= 0), true
		}
	}
	if a.hi != nil && b.lo != nil {
		c := a.hi.Cmp(b.lo)
		if op == "<" && c < 0 || op == "<=" && c <= 0 {
			return ts.True(), true
		}
	}
	if a.lo != nil && b.hi != nil {
		c := a.lo.Cmp(b.hi)
		if op == "<" && c >= 0 || op == "<=" && c > 0 {
			return ts.False(), true
		}
	}
	if a.op == "lin" || b.op == "lin" {
		d := ts.Sub(a, b) // a - b  (op) 0
		if d.hi != nil {
			c := d.hi.Sign()
			if op == "<" && c < 0 || op == "<=" && c <= 0 {
				return ts.True(), true
			}
		}
		if d.lo != nil {
			c := d.lo.Sign()
			if op == "<" && c >= 0 || op == "<=" && c > 0 {
				return ts.False(), true
			}
		}
	}
	return nil, false
}

func (ts *TermStore) Lt(a, b *Term) *Term {
	if r, ok := ts.cmpConst("<", a, b); ok {
		return r
	}
	if a == b {
		return ts.False()
	}
	return ts.mk("<", SBool, a, b)
}
func (ts *TermStore) Le(a, b *Term) *Term {
	if r, ok := ts.cmpConst("<=", a, b); ok {
		return r
	}
	if a == b {
		return ts.True()
	}
	return ts.mk("<=", SBool, a, b)
}
func (ts *TermStore) Gt(a, b *Term) *Term { return ts.Lt(b, a) }
func (ts *TermStore) Ge(a, b *Term) *Term { return ts.Le(b, a) }

// InRange is lo <= x <= hi.
func (ts *TermStore) InRange(x *Term, lo, hi *big.Int) *Term {
	return ts.And(ts.Le(ts.BigInt(lo), x), ts.Le(x, ts.BigInt(hi)))
}

// WithRange returns x annotated with a structural range fact the caller
// guarantees (used for typed reads whose range is asserted as a fact).
func (ts *TermStore) SetRange(x *Term, lo, hi *big.Int) {
	if x.isConst() {
		return
	}
	if x.lo == nil || x.lo.Cmp(lo) < 0 {
		x.lo = lo
	}
	if x.hi == nil || x.hi.Cmp(hi) > 0 {
		x.hi = hi
	}
}

// ---------- arrays ----------

func (ts *TermStore) Select(a, i *Term) *Term {
	// select(store(a,j,v), i)
	for a.op == "store" {
		j := a.args[1]
		if j == i {
			return a.args[2]
		}
		if ts.distinctInts(i, j) {
			a = a.args[0]
			continue
		}
		break
	}
	es := elemSort(a.sort)
	return ts.mk("select", es, a, i)
}

func (ts *TermStore) distinctInts(i, j *Term) bool {
	if i.isConst() && j.isConst() {
		return i.ival.Cmp(j.ival) != 0
	}
	if i.sort == SInt {
		d := ts.Sub(i, j)
		if d.isInt() {
			return d.ival.Sign() != 0
		}
		if d.lo != nil && d.lo.Sign() > 0 {
			return true
		}
		if d.hi != nil && d.hi.Sign() < 0 {
			return true
		}
	}
	return false
}

func elemSort(arr string) string {
	// "(Array I E)"
	s := strings.TrimPrefix(arr, "(Array ")
	s = strings.TrimSuffix(s, ")")
	// index sort is first token or parenthesised group
	depth := 0
	for k := 0; k < len(s); k++ {
		switch s[k] {
		case '(':
			depth++
		case ')':
			depth--
		case ' ':
			if depth == 0 {
				return s[k+1:]
			}
		}
	}
	panic("bad array sort " + arr)
}

func indexSort(arr string) string {
	s := strings.TrimPrefix(arr, "(Array ")
	depth := 0
	for k := 0; k < len(s); k++ {
		switch s[k] {
		case '(':
			depth++
		case ')':
			depth--
		case ' ':
			if depth == 0 {
				return s[:k]
			}
		}
	}
	panic("bad array sort " + arr)
}

func arrSort(idx, elem string) string { return "(Array " + idx + " " + elem + ")" }

func (ts *TermStore) Store(a, i, v *Term) *Term {
	if a.op == "store" && a.args[1] == i {
		a = a.args[0]
	}
	if v.sort != elemSort(a.sort) {
		panic(fmt.Sprintf("store sort mismatch: array %s value %s", a.sort, v.sort))
	}
	return ts.mk("store", a.sort, a, i, v)
}

// ---------- quantifiers ----------

func (ts *TermStore) Forall(vars []*Term, body *Term, pats ...*Term) *Term {
	if body.isTrue() {
		return body
	}
	t := ts.intern(&Term{op: "forall", sort: SBool, args: []*Term{body}, bvars: vars, pat: pats})
	t.bound = ts.hasFreeBound(t)
	return t
}
func (ts *TermStore) Exists(vars []*Term, body *Term) *Term {
	if body.isFalse() {
		return body
	}
	t := ts.intern(&Term{op: "exists", sort: SBool, args: []*Term{body}, bvars: vars})
	t.bound = ts.hasFreeBound(t)
	return t
}

// hasFreeBound reports whether a quantifier term still mentions bound variables
// of an enclosing binder.
func (ts *TermStore) hasFreeBound(q *Term) bool {
	own := map[int]bool{}
	for _, v := range q.bvars {
		own[v.id] = true
	}
	seen := map[int]bool{}
	var walk func(t *Term, own map[int]bool) bool
	walk = func(t *Term, own map[int]bool) bool {
		if !t.bound {
			return false
		}
		if t.op == "bvar" {
			return !own[t.id]
		}
		if seen[t.id] {
			return false
		}
		if t.op == "forall" || t.op == "exists" {
			// nested: its own flag already says whether it has free bound vars
			// relative to itself; need to recheck against our binder
			o2 := map[int]bool{}
			for k := range own {
				o2[k] = true
			}
			for _, v := range t.bvars {
				o2[v.id] = true
			}
			return walk(t.args[0], o2)
		}
		seen[t.id] = true
		for _, a := range t.args {
			if walk(a, own) {
				return true
			}
		}
		return false
	}
	return walk(q.args[0], own)
}

// QuantIdx builds a quantifier over the integer variable bv whose body reads
// arrays at indices of the form bv+E. Such indices defeat E-matching (solvers
// normalise sums), so the formula is re-expressed once per distinct E with the
// substitution bv := j-E, which makes the index the bare variable j, and given
// the pattern (select A j). The variants are equivalent; they are conjoined
// (forall) or disjoined (exists).
func (ts *TermStore) QuantIdx(forall bool, bv, rng, body *Term) *Term {
	type occ struct{ arr, e *Term }
	var occs []occ
	seenE := map[int]bool{}
	seen := map[int]bool{}
	var walk func(t *Term)
	walk = func(t *Term) {
		if !t.bound || seen[t.id] {
			return
		}
		seen[t.id] = true
		if t.op == "select" && !t.args[0].bound && t.args[1].sort == SInt {
			k, e := ts.linCoef(t.args[1], bv)
			if k.Cmp(bigOne) == 0 && !e.bound && !seenE[e.id] {
				seenE[e.id] = true
				occs = append(occs, occ{t.args[0], e})
			}
		}
		for _, a := range t.args {
			walk(a)
		}
	}
	walk(body)
	mk := func(v, r, b *Term, pats ...*Term) *Term {
		if forall {
			return ts.Forall([]*Term{v}, ts.Implies(r, b), pats...)
		}
		return ts.Exists([]*Term{v}, ts.And(r, b))
	}
	if len(occs) == 0 {
		return mk(bv, rng, body)
	}
	if len(occs) > 3 {
		occs = occs[:3]
	}
	var vs []*Term
	for _, o := range occs {
		if o.e.isInt() && o.e.ival.Sign() == 0 {
			vs = append(vs, mk(bv, rng, body, ts.Select(o.arr, bv)))
			continue
		}
		j := ts.Bound("j", SInt)
		m := map[*Term]*Term{bv: ts.Sub(j, o.e)}
		vs = append(vs, mk(j, ts.Subst(rng, m), ts.Subst(body, m), ts.Select(o.arr, j)))
	}
	if forall {
		return ts.And(vs...)
	}
	return ts.Or(vs...)
}

// ---------- substitution ----------

func (ts *TermStore) Subst(t *Term, m map[*Term]*Term) *Term {
	cache := map[int]*Term{}
	var rec func(t *Term) *Term
	rec = func(t *Term) *Term {
		if r, ok := m[t]; ok {
			return r
		}
		if len(t.args) == 0 {
			return t
		}
		if r, ok := cache[t.id]; ok {
			return r
		}
		args := make([]*Term, len(t.args))
		ch := false
		for i, a := range t.args {
			args[i] = rec(a)
			if args[i] != a {
				ch = true
			}
		}
		r := t
		if ch {
			if (t.op == "forall" || t.op == "exists") && len(t.pat) > 0 {
				np := make([]*Term, len(t.pat))
				for i, p := range t.pat {
					np[i] = rec(p)
				}
				t2 := *t
				t2.pat = np
				r = ts.rebuild(&t2, args)
			} else {
				r = ts.rebuild(t, args)
			}
		}
		cache[t.id] = r
		return r
	}
	return rec(t)
}

func (ts *TermStore) rebuild(t *Term, args []*Term) *Term {
	switch t.op {
	case "not":
		return ts.Not(args[0])
	case "and":
		return ts.And(args...)
	case "or":
		return ts.Or(args...)
	case "=>":
		return ts.Implies(args[0], args[1])
	case "ite":
		return ts.Ite(args[0], args[1], args[2])
	case "=":
		return ts.Eq(args[0], args[1])
	case "lin":
		le := linExpr{map[*Term]*big.Int{}, new(big.Int).Set(t.ival)}
		for i, a := range args {
			le.addScaled(ts.linOf(a), t.coefs[i])
		}
		return ts.fromLin(le)
	case "*":
		return ts.Mul(args[0], args[1])
	case "div":
		return ts.Div(args[0], args[1])
	case "mod":
		return ts.Mod(args[0], args[1])
	case "<":
		return ts.Lt(args[0], args[1])
	case "<=":
		return ts.Le(args[0], args[1])
	case "select":
		return ts.Select(args[0], args[1])
	case "store":
		return ts.Store(args[0], args[1], args[2])
	case "forall":
		return ts.Forall(t.bvars, args[0], t.pat...)
	case "exists":
		return ts.Exists(t.bvars, args[0])
	case "app":
		return ts.App(t.name, t.sort, args...)
	}
	return ts.intern(&Term{op: t.op, sort: t.sort, name: t.name, args: args, ival: t.ival, bval: t.bval, bvars: t.bvars, pat: t.pat})
}

// ---------- printing ----------

func (t *Term) String() string {
	var sb strings.Builder
	t.write(&sb, nil)
	return sb.String()
}

func smtInt(v *big.Int) string {
	if v.Sign() < 0 {
		return "(- " + new(big.Int).Neg(v).String() + ")"
	}
	return v.String()
}

func smtSym(s string) string {
	for _, r := range s {
		if !(r >= 'a' && r <= 'z' || r >= 'A' && r <= 'Z' || r >= '0' && r <= '9' || r == '_' || r == '.' || r == '$' || r == '!' || r == '?') {
			return "|" + s + "|"
		}
	}
	return s
}

// write prints t; terms present in named are printed by name.
func (t *Term) write(sb *strings.Builder, named map[int]string) {
	if named != nil {
		if n, ok := named[t.id]; ok {
			sb.WriteString(n)
			return
		}
	}
	switch t.op {
	case "int":
		sb.WriteString(smtInt(t.ival))
	case "bv":
		w := bvWidth(t.sort)
		fmt.Fprintf(sb, "(_ bv%s %d)", t.ival.String(), w)
	case "bool":
		if t.bval {
			sb.WriteString("true")
		} else {
			sb.WriteString("false")
		}
	case "raw":
		sb.WriteString(t.name)
	case "var", "bvar":
		sb.WriteString(smtSym(t.name))
	case "forall", "exists":
		sb.WriteString("(" + t.op + " (")
		for _, v := range t.bvars {
			fmt.Fprintf(sb, "(%s %s)", smtSym(v.name), v.sort)
		}
		sb.WriteString(") ")
		if len(t.pat) > 0 {
			sb.WriteString("(! ")
		}
		t.args[0].write(sb, named)
		if len(t.pat) > 0 {
			sb.WriteString(" :pattern (")
			for i, p := range t.pat {
				if i > 0 {
					sb.WriteByte(' ')
				}
				p.write(sb, named)
			}
			sb.WriteString("))")
		}
		sb.WriteString(")")
	case "lin":
		sb.WriteString("(+")
		if t.ival.Sign() != 0 {
			sb.WriteString(" " + smtInt(t.ival))
		}
		for i, a := range t.args {
			if t.coefs[i].Cmp(bigOne) == 0 {
				sb.WriteByte(' ')
				a.write(sb, named)
			} else {
				sb.WriteString(" (* " + smtInt(t.coefs[i]) + " ")
				a.write(sb, named)
				sb.WriteByte(')')
			}
		}
		if t.ival.Sign() == 0 && len(t.args) == 1 {
			sb.WriteString(" 0")
		}
		sb.WriteByte(')')
	case "app":
		if len(t.args) == 0 {
			sb.WriteString(smtSym(t.name))
			return
		}
		sb.WriteString("(" + smtSym(t.name))
		for _, a := range t.args {
			sb.WriteByte(' ')
			a.write(sb, named)
		}
		sb.WriteByte(')')
	case "extract", "zero_extend", "sign_extend", "int2bv":
		sb.WriteString("(" + t.name)
		for _, a := range t.args {
			sb.WriteByte(' ')
			a.write(sb, named)
		}
		sb.WriteByte(')')
	default:
		sb.WriteString("(" + t.op)
		for _, a := range t.args {
			sb.WriteByte(' ')
			a.write(sb, named)
		}
		sb.WriteByte(')')
	}
}

// Script renders a satisfiability query: declarations for every free constant
// reachable from the asserted terms, define-funs for shared ground subterms,
// then the assertions.
type Script struct {
	ts      *TermStore
	Prelude string // spec function definitions etc.
	Asserts []*Term
}

func (s *Script) Render(logic string, getValues []*Term) string {
	ts := s.ts
	// count references to decide which ground subterms to name
	refs := map[int]int{}
	order := []*Term{}
	var visit func(t *Term)
	seen := map[int]bool{}
	visit = func(t *Term) {
		refs[t.id]++
		if seen[t.id] {
			return
		}
		seen[t.id] = true
		for _, a := range t.args {
			visit(a)
		}
		for _, p := range t.pat {
			visit(p)
		}
		order = append(order, t) // post-order: children first
	}
	roots := append([]*Term{}, s.Asserts...)
	roots = append(roots, getValues...)
	for _, a := range roots {
		visit(a)
	}
	var sb strings.Builder
	sb.WriteString("(set-option :produce-models true)\n")
	if logic == "" {
		logic = "ALL"
	}
	if logic != "" {
		sb.WriteString("(set-logic " + logic + ")\n")
	}
	// declarations
	var decls []string
	usedFuns := map[string]bool{}
	for _, t := range order {
		if t.op == "var" {
			decls = append(decls, fmt.Sprintf("(declare-fun %s () %s)", smtSym(t.name), t.sort))
		}
		if t.op == "app" {
			usedFuns[t.name] = true
		}
	}
	sort.Strings(decls)
	var fdecl []string
	for f := range usedFuns {
		if d, ok := ts.funs[f]; ok {
			fdecl = append(fdecl, d)
		}
	}
	sort.Strings(fdecl)
	for _, d := range fdecl {
		sb.WriteString(d + "\n")
	}
	for _, d := range decls {
		sb.WriteString(d + "\n")
	}
	sb.WriteString(s.Prelude)
	// ground terms reachable from a quantifier pattern must be real constants: solvers expand
	// define-fun macros inside patterns and then reject ite/and/not there
	inPat := map[int]bool{}
	var markPat func(t *Term)
	markPat = func(t *Term) {
		if inPat[t.id] {
			return
		}
		inPat[t.id] = true
		for _, a := range t.args {
			markPat(a)
		}
	}
	for _, t := range order {
		for _, p := range t.pat {
			markPat(p)
		}
	}
	named := map[int]string{}
	for _, t := range order {
		if t.bound || len(t.args) == 0 {
			continue
		}
		if refs[t.id] >= 2 || t.op == "store" || t.op == "ite" {
			var b strings.Builder
			t.write(&b, named)
			n := fmt.Sprintf("t!%d", t.id)
			if inPat[t.id] {
				// array-valued ite terms occur inside quantifier patterns, where solvers reject
				// boolean structure: give them a real constant instead of a macro
				fmt.Fprintf(&sb, "(declare-fun %s () %s)\n(assert (= %s %s))\n", n, t.sort, n, b.String())
			} else {
				fmt.Fprintf(&sb, "(define-fun %s () %s %s)\n", n, t.sort, b.String())
			}
			named[t.id] = n
		}
	}
	for _, a := range s.Asserts {
		var b strings.Builder
		a.write(&b, named)
		sb.WriteString("(assert " + b.String() + ")\n")
	}
	sb.WriteString("(check-sat)\n")
	if len(getValues) > 0 {
		sb.WriteString("(get-value (")
		for _, v := range getValues {
			var b strings.Builder
			v.write(&b, named)
			sb.WriteString(b.String() + " ")
		}
		sb.WriteString("))\n")
	}
	return sb.String()
}

// divChainLemmas returns arithmetic tautologies that relate the quotients of
// one term by a chain of constants c1 | c2 | ...:
//   x div c1 = (x div c2) * (c2/c1) + ((x div c1) mod (c2/c1))
// Solvers do not find these on their own; with them a radix decomposition
// (shift/mask loops) becomes linear arithmetic. Being valid for all integers,
// they may be added to any query.
func (ts *TermStore) divChainLemmas(roots []*Term) []*Term {
	byX := map[*Term][]*Term{}
	seen := map[int]bool{}
	var walk func(t *Term)
	walk = func(t *Term) {
		if seen[t.id] {
			return
		}
		seen[t.id] = true
		if t.op == "div" && t.args[1].isInt() && t.args[1].ival.Sign() > 0 && !t.bound {
			byX[t.args[0]] = append(byX[t.args[0]], t)
		}
		for _, a := range t.args {
			walk(a)
		}
	}
	for _, r := range roots {
		walk(r)
	}
	var out []*Term
	var xs []*Term
	for x := range byX {
		xs = append(xs, x)
	}
	sort.Slice(xs, func(i, j int) bool { return xs[i].id < xs[j].id })
	for _, x := range xs {
		ds := byX[x]
		sort.Slice(ds, func(i, j int) bool { return ds[i].args[1].ival.Cmp(ds[j].args[1].ival) < 0 })
		for i := 0; i+1 < len(ds); i++ {
			c1, c2 := ds[i].args[1].ival, ds[i+1].args[1].ival
			q, r := new(big.Int).QuoRem(c2, c1, new(big.Int))
			if r.Sign() != 0 || q.Cmp(bigOne) == 0 {
				continue
			}
			qt := ts.BigInt(q)
			rem := ts.intern(&Term{op: "mod", sort: SInt, args: []*Term{ds[i], qt}})
			sum := ts.Add(ts.Mul(ds[i+1], qt), rem)
			out = append(out, ts.mk("=", SBool, ds[i], sum))
			out = append(out, ts.mk("and", SBool, ts.mk("<=", SBool, ts.Int(0), rem), ts.mk("<", SBool, rem, qt)))
		}
	}
	return out
}
