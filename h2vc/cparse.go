package main

// Parser for contract expressions: Go expression syntax plus `==>` (lowest
// precedence, right associative) and `<==>`.

import (
	"fmt"
	"math/big"
	"strings"
)

type CExpr struct {
	Kind string // "int","bool","nil","str","ident","unary","binary","call","index","slice","sel","paren"
	Op   string
	Name string
	Int  *big.Int
	Str  string
	Args []*CExpr // operands; for slice: x, lo, hi (nil allowed)
	Pos  int
}

type ctok struct {
	kind string // "id","num","op","char","str","eof"
	text string
	pos  int
}

func clex(s string) ([]ctok, error) {
	var out []ctok
	i := 0
	ops := []string{"<==>", "==>", "&&", "||", "==", "!=", "<=", ">=", "<<", ">>", "&^", "::"}
	for i < len(s) {
		c := s[i]
		switch {
		case c == ' ' || c == '\t' || c == '\n':
			i++
		case c >= '0' && c <= '9':
			j := i
			if c == '0' && j+1 < len(s) && (s[j+1] == 'x' || s[j+1] == 'X') {
				j += 2
				for j < len(s) && strings.ContainsRune("0123456789abcdefABCDEF_", rune(s[j])) {
					j++
				}
			} else {
				for j < len(s) && (s[j] >= '0' && s[j] <= '9' || s[j] == '_') {
					j++
				}
			}
			out = append(out, ctok{"num", s[i:j], i})
			i = j
		case c == '_' || c >= 'a' && c <= 'z' || c >= 'A' && c <= 'Z':
			j := i
			for j < len(s) && (s[j] == '_' || s[j] == '$' || s[j] >= 'a' && s[j] <= 'z' || s[j] >= 'A' && s[j] <= 'Z' || s[j] >= '0' && s[j] <= '9') {
				j++
			}
			out = append(out, ctok{"id", s[i:j], i})
			i = j
		case c == '\'':
			j := i + 1
			for j < len(s) && s[j] != '\'' {
				if s[j] == '\\' {
					j++
				}
				j++
			}
			if j >= len(s) {
				return nil, fmt.Errorf("unterminated char literal at %d", i)
			}
			out = append(out, ctok{"char", s[i+1 : j], i})
			i = j + 1
		case c == '"':
			j := i + 1
			for j < len(s) && s[j] != '"' {
				if s[j] == '\\' {
					j++
				}
				j++
			}
			if j >= len(s) {
				return nil, fmt.Errorf("unterminated string literal at %d", i)
			}
			out = append(out, ctok{"str", s[i+1 : j], i})
			i = j + 1
		default:
			matched := false
			for _, op := range ops {
				if strings.HasPrefix(s[i:], op) {
					out = append(out, ctok{"op", op, i})
					i += len(op)
					matched = true
					break
				}
			}
			if !matched {
				if strings.ContainsRune("+-*/%&|^<>!()[],.:?", rune(c)) {
					out = append(out, ctok{"op", string(c), i})
					i++
				} else {
					return nil, fmt.Errorf("unexpected character %q at %d", c, i)
				}
			}
		}
	}
	out = append(out, ctok{"eof", "", len(s)})
	return out, nil
}

type cparser struct {
	toks []ctok
	p    int
	src  string
}

func ParseCExpr(s string) (*CExpr, error) {
	toks, err := clex(s)
	if err != nil {
		return nil, fmt.Errorf("%v in %q", err, s)
	}
	p := &cparser{toks: toks, src: s}
	e, err := p.parseExpr(0)
	if err != nil {
		return nil, fmt.Errorf("%v in %q", err, s)
	}
	if p.peek().kind != "eof" {
		return nil, fmt.Errorf("unexpected %q at %d in %q", p.peek().text, p.peek().pos, s)
	}
	return e, nil
}

func (p *cparser) peek() ctok { return p.toks[p.p] }
func (p *cparser) next() ctok { t := p.toks[p.p]; p.p++; return t }
func (p *cparser) isOp(s string) bool {
	t := p.peek()
	return t.kind == "op" && t.text == s
}
func (p *cparser) expect(s string) error {
	if !p.isOp(s) {
		return fmt.Errorf("expected %q at %d, found %q", s, p.peek().pos, p.peek().text)
	}
	p.next()
	return nil
}

var cprec = map[string]int{
	"<==>": 1, "==>": 2, "||": 3, "&&": 4,
	"==": 5, "!=": 5, "<": 5, "<=": 5, ">": 5, ">=": 5,
	"+": 6, "-": 6, "|": 6, "^": 6,
	"*": 7, "/": 7, "%": 7, "<<": 7, ">>": 7, "&": 7, "&^": 7,
}

func (p *cparser) parseExpr(minPrec int) (*CExpr, error) {
	lhs, err := p.parseUnary()
	if err != nil {
		return nil, err
	}
	for {
		t := p.peek()
		if t.kind != "op" {
			return lhs, nil
		}
		pr, ok := cprec[t.text]
		if !ok || pr < minPrec {
			return lhs, nil
		}
		p.next()
		nextMin := pr + 1
		if t.text == "==>" {
			nextMin = pr // right associative
		}
		rhs, err := p.parseExpr(nextMin)
		if err != nil {
			return nil, err
		}
		lhs = &CExpr{Kind: "binary", Op: t.text, Args: []*CExpr{lhs, rhs}, Pos: t.pos}
	}
}

func (p *cparser) parseUnary() (*CExpr, error) {
	t := p.peek()
	if t.kind == "op" && (t.text == "!" || t.text == "-" || t.text == "^") {
		p.next()
		x, err := p.parseUnary()
		if err != nil {
			return nil, err
		}
		return &CExpr{Kind: "unary", Op: t.text, Args: []*CExpr{x}, Pos: t.pos}, nil
	}
	return p.parsePostfix()
}

func (p *cparser) parsePostfix() (*CExpr, error) {
	x, err := p.parsePrimary()
	if err != nil {
		return nil, err
	}
	for {
		switch {
		case p.isOp("."):
			p.next()
			t := p.next()
			if t.kind != "id" {
				return nil, fmt.Errorf("expected field name at %d", t.pos)
			}
			x = &CExpr{Kind: "sel", Name: t.text, Args: []*CExpr{x}, Pos: t.pos}
		case p.isOp("("):
			p.next()
			var args []*CExpr
			for !p.isOp(")") {
				a, err := p.parseExpr(0)
				if err != nil {
					return nil, err
				}
				args = append(args, a)
				if p.isOp(",") {
					p.next()
				} else {
					break
				}
			}
			if err := p.expect(")"); err != nil {
				return nil, err
			}
			x = &CExpr{Kind: "call", Args: append([]*CExpr{x}, args...), Pos: x.Pos}
		case p.isOp("["):
			p.next()
			var lo, hi *CExpr
			if !p.isOp(":") {
				lo, err = p.parseExpr(0)
				if err != nil {
					return nil, err
				}
			}
			if p.isOp(":") {
				p.next()
				if !p.isOp("]") {
					hi, err = p.parseExpr(0)
					if err != nil {
						return nil, err
					}
				}
				if err := p.expect("]"); err != nil {
					return nil, err
				}
				x = &CExpr{Kind: "slice", Args: []*CExpr{x, lo, hi}, Pos: x.Pos}
			} else {
				if err := p.expect("]"); err != nil {
					return nil, err
				}
				x = &CExpr{Kind: "index", Args: []*CExpr{x, lo}, Pos: x.Pos}
			}
		default:
			return x, nil
		}
	}
}

func (p *cparser) parsePrimary() (*CExpr, error) {
	t := p.next()
	switch t.kind {
	case "num":
		s := strings.ReplaceAll(t.text, "_", "")
		v := new(big.Int)
		var ok bool
		if strings.HasPrefix(s, "0x") || strings.HasPrefix(s, "0X") {
			_, ok = v.SetString(s[2:], 16)
		} else {
			_, ok = v.SetString(s, 10)
		}
		if !ok {
			return nil, fmt.Errorf("bad number %q", t.text)
		}
		return &CExpr{Kind: "int", Int: v, Pos: t.pos}, nil
	case "char":
		s := t.text
		var c byte
		if len(s) == 1 {
			c = s[0]
		} else if len(s) == 2 && s[0] == '\\' {
			switch s[1] {
			case 'n':
				c = '\n'
			case 'r':
				c = '\r'
			case 't':
				c = '\t'
			case '0':
				c = 0
			default:
				c = s[1]
			}
		} else {
			return nil, fmt.Errorf("bad char literal %q", s)
		}
		return &CExpr{Kind: "int", Int: big.NewInt(int64(c)), Pos: t.pos}, nil
	case "str":
		return &CExpr{Kind: "str", Str: t.text, Pos: t.pos}, nil
	case "id":
		switch t.text {
		case "true", "false":
			return &CExpr{Kind: "bool", Name: t.text, Pos: t.pos}, nil
		case "nil":
			return &CExpr{Kind: "nil", Pos: t.pos}, nil
		}
		return &CExpr{Kind: "ident", Name: t.text, Pos: t.pos}, nil
	case "op":
		if t.text == "(" {
			// (*T) receiver-style type expressions are not expressions; plain parens only
			e, err := p.parseExpr(0)
			if err != nil {
				return nil, err
			}
			if err := p.expect(")"); err != nil {
				return nil, err
			}
			return e, nil
		}
		if t.text == "*" {
			// dereference
			x, err := p.parseUnary()
			if err != nil {
				return nil, err
			}
			return &CExpr{Kind: "unary", Op: "*", Args: []*CExpr{x}, Pos: t.pos}, nil
		}
	}
	return nil, fmt.Errorf("unexpected %q at %d", t.text, t.pos)
}

func (e *CExpr) String() string {
	if e == nil {
		return ""
	}
	switch e.Kind {
	case "int":
		return e.Int.String()
	case "bool", "ident":
		return e.Name
	case "nil":
		return "nil"
	case "str":
		return "\"" + e.Str + "\""
	case "unary":
		return e.Op + e.Args[0].String()
	case "binary":
		return "(" + e.Args[0].String() + " " + e.Op + " " + e.Args[1].String() + ")"
	case "sel":
		return e.Args[0].String() + "." + e.Name
	case "index":
		return e.Args[0].String() + "[" + e.Args[1].String() + "]"
	case "slice":
		return e.Args[0].String() + "[" + e.Args[1].String() + ":" + e.Args[2].String() + "]"
	case "call":
		var as []string
		for _, a := range e.Args[1:] {
			as = append(as, a.String())
		}
		return e.Args[0].String() + "(" + strings.Join(as, ", ") + ")"
	}
	return "?"
}
