package main

import (
	"fmt"
	"go/types"
	"sort"

	"golang.org/x/tools/go/ssa"
)

// State is the symbolic store at a program point.
type State struct {
	cells map[*ssa.Alloc]Value
	vals  map[ssa.Value]Value
	heap  map[string]*Term
	ghost map[string]Value
	// calls deferred so far on this path, per function activation
	defers map[*ssa.Function][]deferRec
	// write log (for loop frame discovery)
	wcells map[*ssa.Alloc]bool
	wheap  map[string]bool
}

func NewState() *State {
	return &State{cells: map[*ssa.Alloc]Value{}, vals: map[ssa.Value]Value{}, heap: map[string]*Term{}, ghost: map[string]Value{},
		wcells: map[*ssa.Alloc]bool{}, wheap: map[string]bool{}}
}

func (s *State) Clone() *State {
	n := &State{cells: make(map[*ssa.Alloc]Value, len(s.cells)), vals: make(map[ssa.Value]Value, len(s.vals)),
		heap: make(map[string]*Term, len(s.heap)), ghost: make(map[string]Value, len(s.ghost)),
		wcells: make(map[*ssa.Alloc]bool, len(s.wcells)), wheap: make(map[string]bool, len(s.wheap))}
	if len(s.defers) > 0 {
		n.defers = make(map[*ssa.Function][]deferRec, len(s.defers))
		for k, v := range s.defers {
			n.defers[k] = append([]deferRec{}, v...)
		}
	}
	for k, v := range s.cells {
		n.cells[k] = v
	}
	for k, v := range s.vals {
		n.vals[k] = v
	}
	for k, v := range s.heap {
		n.heap[k] = v
	}
	for k, v := range s.ghost {
		n.ghost[k] = v
	}
	for k := range s.wcells {
		n.wcells[k] = true
	}
	for k := range s.wheap {
		n.wheap[k] = true
	}
	return n
}

const allocKey = "$alloc"

// heapSortFor gives the SMT sort of the heap array family member `key`.
// Sorts are registered by the executor when it first touches a key.
type heapReg struct {
	sorts map[string]string
}

func (fx *FuncExec) heapGet(st *State, key, sort string) *Term {
	if t, ok := st.heap[key]; ok {
		return t
	}
	if old, ok := fx.eng.heapSorts[key]; ok && old != sort {
		panic(fmt.Sprintf("heap key %s used at sorts %s and %s", key, old, sort))
	}
	fx.eng.heapSorts[key] = sort
	t := fx.ts.Var("H0!"+key, sort)
	return t
}

func (fx *FuncExec) heapSet(st *State, key string, t *Term) {
	if old, ok := fx.eng.heapSorts[key]; ok && old != t.sort {
		panic(fmt.Sprintf("heap key %s set at sort %s, registered %s", key, t.sort, old))
	}
	fx.eng.heapSorts[key] = t.sort
	st.heap[key] = t
	st.wheap[key] = true
	if fx.discLogOn > 0 {
		fx.discLog = append(fx.discLog, discWrite{key, t})
	}
}

// mergeStates builds the ite-merge of states under their (mutually exclusive)
// reach conditions.
func (fx *FuncExec) mergeStates(conds []*Term, sts []*State) *State {
	if len(sts) == 1 {
		return sts[0].Clone()
	}
	out := NewState()
	// deferred calls: the paths being merged must agree (defer statements under a condition are not supported)
	for i, s := range sts {
		if i == 0 {
			if len(s.defers) > 0 {
				out.defers = map[*ssa.Function][]deferRec{}
				for k, v := range s.defers {
					out.defers[k] = append([]deferRec{}, v...)
				}
			}
			continue
		}
		for k, v := range s.defers {
			if len(out.defers[k]) != len(v) {
				fx.unsupported("paths with different sets of deferred calls are merged in " + shortFuncName(k))
			}
		}
		for k, v := range out.defers {
			if len(s.defers[k]) != len(v) {
				fx.unsupported("paths with different sets of deferred calls are merged in " + shortFuncName(k))
			}
		}
	}
	// cells
	ckeys := map[*ssa.Alloc]bool{}
	for _, s := range sts {
		for k := range s.cells {
			ckeys[k] = true
		}
		for k := range s.wcells {
			out.wcells[k] = true
		}
		for k := range s.wheap {
			out.wheap[k] = true
		}
	}
	for _, k := range sortedAllocs(ckeys) {
		var cs []*Term
		var vs []Value
		for i, s := range sts {
			if v, ok := s.cells[k]; ok {
				cs = append(cs, conds[i])
				vs = append(vs, v)
			}
		}
		out.cells[k] = fx.mergeValues(cs, vs, k.Type().(*types.Pointer).Elem())
	}
	vkeys := map[ssa.Value]bool{}
	for _, s := range sts {
		for k := range s.vals {
			vkeys[k] = true
		}
	}
	for _, k := range sortedValues(vkeys) {
		var cs []*Term
		var vs []Value
		for i, s := range sts {
			if v, ok := s.vals[k]; ok {
				cs = append(cs, conds[i])
				vs = append(vs, v)
			}
		}
		out.vals[k] = fx.mergeValues(cs, vs, k.Type())
	}
	hkeys := map[string]bool{}
	for _, s := range sts {
		for k := range s.heap {
			hkeys[k] = true
		}
	}
	hk := make([]string, 0, len(hkeys))
	for k := range hkeys {
		hk = append(hk, k)
	}
	sort.Strings(hk)
	for _, k := range hk {
		var res *Term
		for i := len(sts) - 1; i >= 0; i-- {
			t, ok := sts[i].heap[k]
			if !ok {
				t = fx.ts.Var("H0!"+k, fx.eng.heapSorts[k])
			}
			if res == nil {
				res = t
			} else {
				res = fx.ts.Ite(conds[i], t, res)
			}
		}
		out.heap[k] = res
	}
	gkeys := map[string]bool{}
	for _, s := range sts {
		for k := range s.ghost {
			gkeys[k] = true
		}
	}
	for _, k := range sortedStrings(gkeys) {
		var cs []*Term
		var vs []Value
		for i, s := range sts {
			cs = append(cs, conds[i])
			if v, ok := s.ghost[k]; ok {
				vs = append(vs, v)
			} else {
				vs = append(vs, VInt{fx.ts.Int(0)}) // ghost counters start at zero
			}
		}
		out.ghost[k] = fx.mergeValues(cs, vs, nil)
	}
	return out
}

func (fx *FuncExec) mergeValues(conds []*Term, vs []Value, typ types.Type) Value {
	if len(vs) == 0 {
		return nil
	}
	res := vs[len(vs)-1]
	for i := len(vs) - 2; i >= 0; i-- {
		res = fx.iteValue(conds[i], vs[i], res, typ)
	}
	return res
}

func (fx *FuncExec) iteValue(c *Term, a, b Value, typ types.Type) Value {
	ts := fx.ts
	if a == nil {
		return b
	}
	if b == nil {
		return a
	}
	switch av := a.(type) {
	case VInt:
		if bv, ok := b.(VInt); ok {
			return VInt{ts.Ite(c, av.t, bv.t)}
		}
	case VBool:
		if bv, ok := b.(VBool); ok {
			return VBool{ts.Ite(c, av.t, bv.t)}
		}
	case VSlice:
		if bv, ok := b.(VSlice); ok {
			return mkSlice(ts.Ite(c, av.arr, bv.arr), ts.Ite(c, av.off, bv.off), ts.Ite(c, av.len, bv.len), ts.Ite(c, av.cap, bv.cap), av.elem)
		}
	case VStr:
		if bv, ok := b.(VStr); ok {
			return VStr{ts.Ite(c, av.id, bv.id)}
		}
	case VPtr:
		if bv, ok := b.(VPtr); ok {
			if av.key == bv.key {
				return VPtr{av.key, ts.Ite(c, av.ref, bv.ref), av.typ}
			}
			// nil pointer constants carry the default key of their type
			if bv.ref.isInt() && bv.ref.ival.Sign() == 0 {
				return VPtr{av.key, ts.Ite(c, av.ref, bv.ref), av.typ}
			}
			if av.ref.isInt() && av.ref.ival.Sign() == 0 {
				return VPtr{bv.key, ts.Ite(c, av.ref, bv.ref), bv.typ}
			}
			fx.unsupported("merge of pointers into different heap families: " + av.key + " / " + bv.key)
			return fx.freshValue("ptrmerge", types.NewPointer(av.typ), nil)
		}
	case VElem:
		if bv, ok := b.(VElem); ok && av.heap == bv.heap {
			return VElem{heap: av.heap, arr: ts.Ite(c, av.arr, bv.arr), idx: ts.Ite(c, av.idx, bv.idx), typ: av.typ}
		}
	case VIface:
		if bv, ok := b.(VIface); ok {
			return VIface{ts.Ite(c, av.tag, bv.tag), ts.Ite(c, av.val, bv.val)}
		}
	case VStruct:
		if bv, ok := b.(VStruct); ok && len(av.fields) == len(bv.fields) {
			fs := make([]Value, len(av.fields))
			st, _ := av.typ.Underlying().(*types.Struct)
			for i := range fs {
				var ft types.Type
				if st != nil {
					ft = st.Field(i).Type()
				}
				fs[i] = fx.iteValue(c, av.fields[i], bv.fields[i], ft)
			}
			return VStruct{av.typ, fs}
		}
	case VTuple:
		if bv, ok := b.(VTuple); ok && len(av.vals) == len(bv.vals) {
			fs := make([]Value, len(av.vals))
			for i := range fs {
				fs[i] = fx.iteValue(c, av.vals[i], bv.vals[i], nil)
			}
			return VTuple{fs}
		}
	case VOpaque:
		if bv, ok := b.(VOpaque); ok {
			return VOpaque{ts.Ite(c, av.t, bv.t), av.typ}
		}
	case VArr:
		if bv, ok := b.(VArr); ok {
			return VArr{ts.Ite(c, av.arr, bv.arr), av.n, av.typ}
		}
	case VFunc:
		if bv, ok := b.(VFunc); ok && av.fn == bv.fn {
			return av
		}
	case VCell:
		if bv, ok := b.(VCell); ok && av.a == bv.a {
			return av
		}
	case VBuiltin:
		return a
	}
	if typ != nil {
		fx.unsupported(fmt.Sprintf("merge of values of different shapes (%T / %T) at type %s", a, b, typ))
		return fx.freshValue("merge", typ, nil)
	}
	fx.unsupported(fmt.Sprintf("merge of values of different shapes (%T / %T)", a, b))
	return a
}

// Deterministic iteration orders: the order in which merged values are built decides term ids and the
// order of generated facts, and solvers are sensitive to both.
func valueOrderKey(v ssa.Value) string {
	p := ""
	if f := v.Parent(); f != nil {
		p = f.String()
	}
	return fmt.Sprintf("%s|%012d|%s", p, int(v.Pos()), v.Name())
}

func sortedAllocs(m map[*ssa.Alloc]bool) []*ssa.Alloc {
	out := make([]*ssa.Alloc, 0, len(m))
	for k := range m {
		out = append(out, k)
	}
	sort.Slice(out, func(i, j int) bool { return valueOrderKey(out[i]) < valueOrderKey(out[j]) })
	return out
}

func sortedValues(m map[ssa.Value]bool) []ssa.Value {
	out := make([]ssa.Value, 0, len(m))
	for k := range m {
		out = append(out, k)
	}
	sort.Slice(out, func(i, j int) bool { return valueOrderKey(out[i]) < valueOrderKey(out[j]) })
	return out
}

func sortedStrings(m map[string]bool) []string {
	out := make([]string, 0, len(m))
	for k := range m {
		out = append(out, k)
	}
	sort.Strings(out)
	return out
}
