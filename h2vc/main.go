package main

import (
	"flag"
	"fmt"
	"os"
	"path/filepath"
	"runtime"
	"sort"
	"strings"
	"time"

	"golang.org/x/tools/go/ssa"
)

var (
	flagRepo    = flag.String("repo", "/repo", "repository root")
	flagVerif   = flag.String("verif", "/verif", "verification root")
	flagTier    = flag.String("tier", "quick", "quick or thorough")
	flagTimeout = flag.Int("timeout", 0, "per-obligation solver timeout in seconds (0: by tier)")
	flagPar     = flag.Int("par", 0, "parallel obligations (0: NumCPU/2)")
	flagVerbose = flag.Bool("v", false, "print every obligation")
	flagDump    = flag.String("dump", "", "directory to keep SMT scripts of non-proved obligations")
	flagOnly    = flag.String("only", "", "substring filter on obligation names")
	flagModel   = flag.Bool("model", false, "func mode: print and replay the model of refuted obligations")
)

func contractFilesFor(repo string) map[string]string {
	m := map[string]string{}
	for _, p := range []struct{ f, pkg string }{{"contracts_verif.go", "http2"}, {"http2utils/contracts_verif.go", "http2utils"}} {
		f := filepath.Join(repo, p.f)
		if _, err := os.Stat(f); err == nil {
			m[f] = p.pkg
		}
	}
	return m
}

func main() {
	flag.Usage = func() {
		fmt.Fprintln(os.Stderr, "usage: h2vc [flags] func <name>... | check <property> | all | list")
		flag.PrintDefaults()
	}
	flag.Parse()
	args := flag.Args()
	if len(args) == 0 {
		flag.Usage()
		os.Exit(2)
	}
	if *flagPar == 0 {
		*flagPar = runtime.NumCPU() / 2
		if *flagPar < 1 {
			*flagPar = 1
		}
	}
	if *flagTimeout == 0 {
		if *flagTier == "thorough" {
			*flagTimeout = 120
		} else {
			*flagTimeout = 20
		}
	}
	t0 := time.Now()
	eng, err := LoadEngine(*flagRepo, contractFilesFor(*flagRepo), filepath.Join(*flagVerif, "spec"))
	if err != nil {
		fmt.Fprintln(os.Stderr, "h2vc: load:", err)
		os.Exit(2)
	}
	eng.loadSecs = time.Since(t0).Seconds()
	switch args[0] {
	case "list":
		var names []string
		for n := range eng.funcsByName {
			names = append(names, n)
		}
		sort.Strings(names)
		for _, n := range names {
			mark := " "
			if _, ok := eng.cs.ByFunc[n]; ok {
				mark = "*"
			}
			fmt.Println(mark, n, instrCount(eng.funcsByName[n]))
		}
	case "ssa":
		for _, n := range args[1:] {
			fn := eng.findFunc(n)
			if fn == nil {
				fmt.Fprintln(os.Stderr, "no function", n)
				continue
			}
			fn.WriteTo(os.Stdout)
		}
	case "func":
		code := 0
		for _, n := range args[1:] {
			fn := eng.findFunc(n)
			if fn == nil {
				fmt.Fprintln(os.Stderr, "no function", n)
				os.Exit(2)
			}
			obls, fx, err := eng.runFunction(fn)
			if err != nil {
				fmt.Fprintln(os.Stderr, "error:", err)
				code = 2
				continue
			}
			printObls(obls, true)
			if *flagModel {
				for _, o := range obls {
					if o.Status == "refuted" && !o.ExpectSat {
						rp := eng.replay(o, eng.workDir())
						if rp != nil {
							fmt.Println("MODEL for", o.Name)
							var ks []string
							for k := range rp.Inputs {
								ks = append(ks, k)
							}
							sort.Strings(ks)
							for _, k := range ks {
								if !strings.Contains(k, "[") || strings.Contains(k, "[0]") || strings.Contains(k, "[1]") || strings.Contains(k, "[4]") {
									fmt.Printf("   %s = %s\n", k, rp.Inputs[k])
								}
							}
							fmt.Println("   predicted:", rp.Predicted, "observed:", rp.Observed, "note:", rp.Note, "confirmed:", rp.Confirmed)
						}
					}
				}
			}
			for _, u := range fx.unsup {
				fmt.Println("UNSUPPORTED:", u)
			}
			var notes []string
			for n := range fx.notes {
				notes = append(notes, n)
			}
			sort.Strings(notes)
			for _, n := range notes {
				fmt.Println("note:", n)
			}
			for _, o := range obls {
				if !o.ok() {
					code = 1
				}
			}
		}
		os.Exit(code)
	case "check":
		if len(args) < 2 {
			flag.Usage()
			os.Exit(2)
		}
		os.Exit(eng.checkProperty(args[1], *flagTier))
	case "all":
		os.Exit(eng.checkProperty("", *flagTier))
	default:
		flag.Usage()
		os.Exit(2)
	}
}

func (o *Obligation) ok() bool {
	if o.ExpectSat {
		return o.Status == "refuted" || o.Status == "unknown" // canaries: only a *proved* canary is vacuity
	}
	return o.Status == "proved"
}

func (eng *Engine) findFunc(n string) *ssa.Function {
	if f, ok := eng.funcsByName[n]; ok {
		return f
	}
	if f, ok := eng.funcsByName["http2."+n]; ok {
		return f
	}
	return nil
}

func (eng *Engine) workDir() string {
	d := os.Getenv("H2VC_WORK")
	if d == "" {
		d = filepath.Join(*flagVerif, ".work")
	}
	if *flagDump != "" {
		d = *flagDump
	}
	_ = os.MkdirAll(d, 0o755)
	return d
}

func (eng *Engine) runFunction(fn *ssa.Function) ([]*Obligation, *FuncExec, error) {
	con := eng.contractFor(fn)
	fx, err := eng.VerifyFunction(fn, con)
	if err != nil {
		return nil, fx, err
	}
	obls := fx.obls
	if *flagOnly != "" {
		var f []*Obligation
		for _, o := range obls {
			if strings.Contains(o.Name, *flagOnly) {
				f = append(f, o)
			}
		}
		obls = f
	}
	var cache *solveCache
	if d := os.Getenv("H2VC_CACHE"); d != "" {
		cache = &solveCache{dir: d}
	}
	if *flagDump != "" {
		os.Setenv("H2VC_KEEP", "1")
	}
	solveAll(obls, eng.workDir(), *flagTimeout, seedFromEnv(), *flagPar, cache)
	return obls, fx, nil
}

func seedFromEnv() int {
	var s int
	fmt.Sscanf(os.Getenv("VERIF_SEED"), "%d", &s)
	return s
}

func printObls(obls []*Obligation, verbose bool) {
	for _, o := range obls {
		if !verbose && o.ok() {
			continue
		}
		tag := o.Status
		if o.ExpectSat {
			switch o.Status {
			case "refuted":
				tag = "reachable"
			case "proved":
				tag = "VACUOUS"
			}
		}
		fmt.Printf("%-10s %-60s %-8s %6.2fs  %s\n", tag, o.Name, o.Solver, o.Secs, o.Src)
		for _, s := range o.Sub {
			if s.Status != "proved" && s.Status != "" {
				fmt.Printf("    %-10s %-60s %-8s %6.2fs\n", s.Status, s.Name, s.Solver, s.Secs)
			}
		}
	}
}
