package main

// Counterexample replay: a refuted obligation's model is turned into a Go test
// that calls the real function (injected with `go test -overlay`, nothing is
// written to the repository) and the observed behaviour is compared with what
// the model predicts.

import (
	"bytes"
	"context"
	"encoding/json"
	"fmt"
	"go/types"
	"math/big"
	"os"
	"os/exec"
	"path/filepath"
	"sort"
	"strings"
	"time"
)

const replayMaxLen = 40

// ---------- s-expressions ----------

type sexp struct {
	atom string
	list []*sexp
}

func parseSexps(s string) []*sexp {
	var out []*sexp
	pos := 0
	for {
		e, np := parseSexp(s, pos)
		if e == nil {
			return out
		}
		out = append(out, e)
		pos = np
	}
}

func parseSexp(s string, i int) (*sexp, int) {
	for i < len(s) && (s[i] == ' ' || s[i] == '\n' || s[i] == '\t' || s[i] == '\r') {
		i++
	}
	if i >= len(s) {
		return nil, i
	}
	if s[i] == '(' {
		i++
		e := &sexp{list: []*sexp{}}
		for {
			for i < len(s) && (s[i] == ' ' || s[i] == '\n' || s[i] == '\t' || s[i] == '\r') {
				i++
			}
			if i >= len(s) {
				return e, i
			}
			if s[i] == ')' {
				return e, i + 1
			}
			c, ni := parseSexp(s, i)
			if c == nil {
				return e, ni
			}
			e.list = append(e.list, c)
			i = ni
		}
	}
	if s[i] == ')' {
		return nil, i + 1
	}
	j := i
	if s[i] == '|' {
		j = i + 1
		for j < len(s) && s[j] != '|' {
			j++
		}
		j++
	} else {
		for j < len(s) && !strings.ContainsRune(" \n\t\r()", rune(s[j])) {
			j++
		}
	}
	return &sexp{atom: s[i:j]}, j
}

func (e *sexp) intVal() (*big.Int, bool) {
	if e == nil {
		return nil, false
	}
	if e.list == nil {
		v, ok := new(big.Int).SetString(e.atom, 10)
		return v, ok
	}
	if len(e.list) == 2 && e.list[0].atom == "-" {
		v, ok := e.list[1].intVal()
		if ok {
			return new(big.Int).Neg(v), true
		}
	}
	return nil, false
}

// ---------- model terms ----------

type mterm struct {
	path string
	t    *Term
}

type modelPlan struct {
	terms []mterm
	idx   map[string]int
}

func (mp *modelPlan) add(path string, t *Term) {
	if t == nil {
		return
	}
	if _, ok := mp.idx[path]; ok {
		return
	}
	mp.idx[path] = len(mp.terms)
	mp.terms = append(mp.terms, mterm{path, t})
}

// planValue registers the terms needed to reconstruct v (of type t) read in state st.
func (fx *FuncExec) planValue(mp *modelPlan, path string, v Value, t types.Type, st *State, depth int) {
	ts := fx.ts
	switch x := v.(type) {
	case VInt:
		mp.add(path, x.t)
	case VBool:
		mp.add(path, x.t)
	case VStr:
		mp.add(path, x.id)
	case VSlice:
		mp.add(path+".arr", x.arr)
		mp.add(path+".off", x.off)
		mp.add(path+".len", x.len)
		mp.add(path+".cap", x.cap)
		if intRepresentable(x.elem) {
			h := fx.heapGet(st, elemHeapKey(x.elem), SArr2)
			arr := ts.Select(h, x.arr)
			n := replayMaxLen
			if _, isPtr := x.elem.Underlying().(*types.Pointer); isPtr {
				n = 6
			}
			for k := 0; k < n; k++ {
				et := ts.Select(arr, ts.Add(x.off, ts.Int(int64(k))))
				mp.add(fmt.Sprintf("%s[%d]", path, k), et)
				if p, isPtr := x.elem.Underlying().(*types.Pointer); isPtr && depth > 0 {
					fx.planValue(mp, fmt.Sprintf("%s[%d]", path, k), VPtr{ptrKey(p.Elem()), et, p.Elem()}, x.elem, st, depth-1)
				}
			}
		}
	case VPtr:
		mp.add(path, x.ref)
		if depth <= 0 {
			return
		}
		if stt, ok := x.typ.Underlying().(*types.Struct); ok {
			for i := 0; i < stt.NumFields(); i++ {
				f := stt.Field(i)
				fv := fx.loadFieldQuiet(st, x.key+"."+f.Name(), x.ref, f.Type())
				if fv != nil {
					fx.planValue(mp, path+"."+f.Name(), fv, f.Type(), st, depth-1)
				}
			}
		} else if _, ok := x.typ.Underlying().(*types.Slice); ok {
			fv := fx.loadFieldQuiet(st, x.key, x.ref, x.typ)
			if fv != nil {
				fx.planValue(mp, path+".*", fv, x.typ, st, depth-1)
			}
		}
	case VIface:
		mp.add(path+".tag", x.tag)
		mp.add(path+".val", x.val)
	case VStruct:
		if stt, ok := x.typ.Underlying().(*types.Struct); ok {
			for i := 0; i < stt.NumFields(); i++ {
				fx.planValue(mp, path+"."+stt.Field(i).Name(), x.fields[i], stt.Field(i).Type(), st, depth)
			}
		}
	case VArr:
		for k := int64(0); k < x.n && k < replayMaxLen; k++ {
			mp.add(fmt.Sprintf("%s[%d]", path, k), ts.Select(x.arr, ts.Int(k)))
		}
	}
}

// loadFieldQuiet reads a field without recording facts or notes.
func (fx *FuncExec) loadFieldQuiet(st *State, key string, ref *Term, t types.Type) Value {
	fx.discover++
	defer func() { fx.discover-- }()
	switch t.Underlying().(type) {
	case *types.Map, *types.Chan, *types.Signature:
		return nil
	}
	return fx.loadField(st, fx.ts.True(), key, ref, t)
}

func (fx *FuncExec) buildModelPlan() *modelPlan {
	mp := &modelPlan{idx: map[string]int{}}
	for _, in := range fx.inputs {
		fx.planValue(mp, "in."+in.name, in.val, in.typ, fx.entry, 3)
	}
	if fx.exitState != nil {
		res := fx.fn.Signature.Results()
		for i, r := range fx.results {
			fx.planValue(mp, fmt.Sprintf("out.r%d", i), r, res.At(i).Type(), fx.exitState, 1)
		}
	}
	return mp
}

func (fx *FuncExec) modelTerms() []*Term { return nil }

// ---------- replay ----------

type modelVals map[string]*big.Int

func (m modelVals) int(path string) (int64, bool) {
	v, ok := m[path]
	if !ok || !v.IsInt64() {
		return 0, false
	}
	return v.Int64(), true
}

func (eng *Engine) replay(o *Obligation, work string) *replayResult {
	fx := o.fx
	if fx == nil || len(fx.stack) > 0 {
		return nil
	}
	rp := &replayResult{}
	defer func() {
		if r := recover(); r != nil {
			rp.Note = fmt.Sprintf("replay generator failed: %v", r)
		}
	}()
	mp := fx.buildModelPlan()
	var gv []*Term
	for _, m := range mp.terms {
		gv = append(gv, m.t)
	}
	// re-solve with small-input side constraints so the witness is replayable
	ts := fx.ts
	var side []*Term
	for _, m := range mp.terms {
		if strings.HasSuffix(m.path, ".len") || strings.HasSuffix(m.path, ".cap") {
			side = append(side, ts.Le(m.t, ts.Int(replayMaxLen)))
		}
		if strings.HasSuffix(m.path, ".off") {
			side = append(side, ts.Le(m.t, ts.Int(16)))
		}
	}
	var vals modelVals
	for attempt := 0; attempt < 2 && vals == nil; attempt++ {
		s := &Script{ts: ts}
		s.Asserts = append(s.Asserts, fx.facts[:o.NFacts]...)
		s.Asserts = append(s.Asserts, ts.Not(o.Goal))
		if attempt == 0 {
			s.Asserts = append(s.Asserts, side...)
		}
		if fx.usesSpec {
			s.Prelude = fx.specPrelude()
		}
		script := s.Render("", gv)
		r := solveScript(script, work, 20, seedFromEnv(), "")
		if r.Status != "sat" {
			continue
		}
		vals = parseModel(r.Output, mp)
	}
	if vals == nil {
		rp.Note = "no model with small inputs could be extracted"
		return rp
	}
	src, inputs, predicted, err := eng.genReplayTest(fx, vals)
	rp.Inputs, rp.Predicted = inputs, predicted
	if err != nil {
		rp.Note = "inputs not constructible in a test: " + err.Error()
		return rp
	}
	rp.TestSrc = src
	out, err := eng.runReplayTest(fx, src, work)
	rp.Observed = out
	if err != nil {
		rp.Note = "replay test did not run: " + err.Error()
		return rp
	}
	panicked := strings.Contains(out, "H2VC-PANIC:")
	if o.Kind == "safe" {
		rp.Confirmed = panicked
		if !panicked {
			rp.Note = "the real code did not panic on the model's input (abstraction artefact or unreachable intermediate state)"
		}
		return rp
	}
	if panicked {
		rp.Note = "the real code panicked on the model's input"
		rp.Confirmed = o.Kind == "post"
		return rp
	}
	// compare observed results with the model's predicted results
	obs := map[string]string{}
	for _, line := range strings.Split(out, "\n") {
		if strings.HasPrefix(line, "H2VC-OUT ") {
			k, v, _ := strings.Cut(strings.TrimPrefix(line, "H2VC-OUT "), "=")
			obs[k] = v
		}
	}
	agree := len(predicted) > 0
	for k, v := range predicted {
		if obs[k] != v {
			agree = false
		}
	}
	if o.Kind == "post" && agree {
		rp.Confirmed = true
		rp.Note = "the real function returns exactly what the model predicts; the clause is false on these values"
	} else if o.Kind == "post" {
		rp.Note = "the real function's results differ from the model's prediction (abstraction artefact)"
	} else {
		rp.Note = "obligation inside the function body: the model describes an intermediate state, not replayed from the entry"
	}
	return rp
}

func parseModel(out string, mp *modelPlan) modelVals {
	i := strings.Index(out, "(")
	if i < 0 {
		return nil
	}
	es := parseSexps(out[i:])
	if len(es) == 0 || es[0].list == nil {
		return nil
	}
	pairs := es[0].list
	vals := modelVals{}
	for k, p := range pairs {
		if k >= len(mp.terms) || p.list == nil || len(p.list) != 2 {
			continue
		}
		v := p.list[1]
		if v.list == nil && (v.atom == "true" || v.atom == "false") {
			if v.atom == "true" {
				vals[mp.terms[k].path] = big.NewInt(1)
			} else {
				vals[mp.terms[k].path] = big.NewInt(0)
			}
			continue
		}
		if iv, ok := v.intVal(); ok {
			vals[mp.terms[k].path] = iv
		}
	}
	return vals
}

type gen struct {
	eng   *Engine
	vals  modelVals
	decls []string
	nvar  int
	objs  map[string]string // ref value -> variable
	pkg   *types.Package
}

func (g *gen) typeStr(t types.Type) string {
	return types.TypeString(t, func(p *types.Package) string {
		if p == g.pkg {
			return ""
		}
		return p.Name()
	})
}

// expr builds a Go expression for the value at path of type t.
func (g *gen) expr(path string, t types.Type, depth int) (string, error) {
	switch u := t.Underlying().(type) {
	case *types.Basic:
		switch {
		case u.Info()&types.IsBoolean != 0:
			v, ok := g.vals.int(path)
			if !ok {
				return "false", nil
			}
			return fmt.Sprint(v != 0), nil
		case u.Info()&types.IsInteger != 0:
			v, ok := g.vals[path]
			if !ok {
				return g.typeStr(t) + "(0)", nil
			}
			if it, okT := intTyOf(u); okT && (v.Cmp(it.min()) < 0 || v.Cmp(it.max()) > 0) {
				// a value the model left unconstrained (outside what the function reads): any in-range value does
				v = new(big.Int).Mod(v, pow2(it.bits))
				if it.signed && v.Cmp(it.max()) > 0 {
					v.Sub(v, pow2(it.bits))
				}
			}
			if it, _ := intTyOf(u); !it.signed && v.Sign() >= 0 || v.IsInt64() {
				return fmt.Sprintf("%s(%s)", g.typeStr(t), v.String()), nil
			}
			return "", fmt.Errorf("integer %s out of range", path)
		case u.Info()&types.IsString != 0:
			id, ok := g.vals.int(path)
			if ok {
				if s, ok := g.eng.stringByID[id]; ok {
					return fmt.Sprintf("%q", s), nil
				}
			}
			return `""`, nil
		}
	case *types.Slice:
		arr, _ := g.vals.int(path + ".arr")
		n, ok1 := g.vals.int(path + ".len")
		c, ok2 := g.vals.int(path + ".cap")
		if !ok1 || !ok2 {
			return "nil", nil
		}
		if arr == 0 && n == 0 {
			return "nil", nil
		}
		if n < 0 || n > replayMaxLen || c < n || c > 1<<20 {
			return "", fmt.Errorf("slice %s has length %d cap %d", path, n, c)
		}
		var elems []string
		for k := int64(0); k < n; k++ {
			ep := fmt.Sprintf("%s[%d]", path, k)
			if _, isPtr := u.Elem().Underlying().(*types.Pointer); isPtr {
				if k >= 6 {
					return "", fmt.Errorf("slice of pointers %s too long", path)
				}
			}
			e, err := g.expr(ep, u.Elem(), depth-1)
			if err != nil {
				return "", err
			}
			elems = append(elems, e)
		}
		g.nvar++
		name := fmt.Sprintf("s%d", g.nvar)
		g.decls = append(g.decls, fmt.Sprintf("%s := append(make(%s, 0, %d), %s{%s}...)", name, g.typeStr(t), c, g.typeStr(t), strings.Join(elems, ", ")))
		return name, nil
	case *types.Pointer:
		ref, ok := g.vals.int(path)
		if !ok || ref == 0 {
			return "nil", nil
		}
		key := fmt.Sprintf("%s#%d", g.typeStr(u.Elem()), ref)
		if v, ok := g.objs[key]; ok {
			return v, nil
		}
		if depth <= 0 {
			return "", fmt.Errorf("object graph too deep at %s", path)
		}
		switch pu := u.Elem().Underlying().(type) {
		case *types.Struct:
			g.nvar++
			name := fmt.Sprintf("o%d", g.nvar)
			g.objs[key] = name
			var fs []string
			for i := 0; i < pu.NumFields(); i++ {
				f := pu.Field(i)
				switch f.Type().Underlying().(type) {
				case *types.Map, *types.Chan, *types.Signature, *types.Interface, *types.Struct, *types.Array:
					continue // left at zero value
				}
				if _, isPtr := f.Type().Underlying().(*types.Pointer); isPtr && depth <= 1 {
					continue
				}
				if f.Pkg() != g.pkg && !f.Exported() {
					continue
				}
				e, err := g.expr(path+"."+f.Name(), f.Type(), depth-1)
				if err != nil {
					return "", err
				}
				fs = append(fs, fmt.Sprintf("%s: %s", f.Name(), e))
			}
			if n, ok := u.Elem().(*types.Named); ok && n.Obj().Pkg() != g.pkg {
				return "", fmt.Errorf("object of external type %s", g.typeStr(u.Elem()))
			}
			g.decls = append(g.decls, fmt.Sprintf("%s := &%s{%s}", name, g.typeStr(u.Elem()), strings.Join(fs, ", ")))
			return name, nil
		case *types.Slice:
			e, err := g.expr(path+".*", u.Elem(), depth-1)
			if err != nil {
				return "", err
			}
			g.nvar++
			name := fmt.Sprintf("p%d", g.nvar)
			g.decls = append(g.decls, fmt.Sprintf("%sv := %s; %s := &%sv", name, e, name, name))
			return name, nil
		}
		return "", fmt.Errorf("pointer to %s", g.typeStr(u.Elem()))
	case *types.Interface:
		tag, ok := g.vals.int(path + ".tag")
		if !ok || tag == 0 {
			return "nil", nil
		}
		return "", fmt.Errorf("non-nil interface argument %s", path)
	}
	return "", fmt.Errorf("value of type %s", g.typeStr(t))
}

func (eng *Engine) genReplayTest(fx *FuncExec, vals modelVals) (src string, inputs, predicted map[string]string, err error) {
	fn := fx.fn
	g := &gen{eng: eng, vals: vals, objs: map[string]string{}, pkg: fn.Pkg.Pkg}
	inputs = map[string]string{}
	predicted = map[string]string{}
	var args []string
	for _, in := range fx.inputs {
		e, err := g.expr("in."+in.name, in.typ, 3)
		if err != nil {
			return "", inputs, predicted, err
		}
		args = append(args, e)
	}
	for _, m := range sortedKeys(vals) {
		if strings.HasPrefix(m, "in.") && len(inputs) < 80 {
			inputs[m] = vals[m].String()
		}
	}
	sig := fn.Signature
	var call string
	if sig.Recv() != nil {
		call = fmt.Sprintf("%s.%s(%s)", args[0], fn.Name(), strings.Join(args[1:], ", "))
	} else {
		call = fmt.Sprintf("%s(%s)", fn.Name(), strings.Join(args, ", "))
	}
	var sb strings.Builder
	sb.WriteString("package " + fn.Pkg.Pkg.Name() + "\n\nimport (\n\t\"fmt\"\n\t\"testing\"\n)\n\n")
	sb.WriteString("func TestH2VCReplay(t *testing.T) {\n")
	sb.WriteString("\tdefer func() {\n\t\tif r := recover(); r != nil {\n\t\t\tfmt.Printf(\"H2VC-PANIC: %v\\n\", r)\n\t\t}\n\t}()\n")
	for _, d := range g.decls {
		sb.WriteString("\t" + d + "\n")
	}
	n := sig.Results().Len()
	var rs []string
	for i := 0; i < n; i++ {
		rs = append(rs, fmt.Sprintf("r%d", i))
	}
	if n > 0 {
		sb.WriteString("\t" + strings.Join(rs, ", ") + " := " + call + "\n")
	} else {
		sb.WriteString("\t" + call + "\n")
	}
	for i := 0; i < n; i++ {
		rt := sig.Results().At(i).Type()
		p := fmt.Sprintf("out.r%d", i)
		switch u := rt.Underlying().(type) {
		case *types.Basic:
			if u.Info()&types.IsInteger != 0 {
				sb.WriteString(fmt.Sprintf("\tfmt.Printf(\"H2VC-OUT r%d=%%d\\n\", r%d)\n", i, i))
				if v, ok := vals[p]; ok {
					predicted[fmt.Sprintf("r%d", i)] = v.String()
				}
			} else if u.Info()&types.IsBoolean != 0 {
				sb.WriteString(fmt.Sprintf("\tfmt.Printf(\"H2VC-OUT r%d=%%v\\n\", r%d)\n", i, i))
				if v, ok := vals[p]; ok {
					predicted[fmt.Sprintf("r%d", i)] = fmt.Sprint(v.Sign() != 0)
				}
			}
		case *types.Slice:
			if isByteLike(u.Elem()) {
				sb.WriteString(fmt.Sprintf("\tfmt.Printf(\"H2VC-OUT r%d=len:%%d:%%x\\n\", len(r%d), r%d)\n", i, i, i))
				if ln, ok := vals.int(p + ".len"); ok && ln >= 0 && ln <= replayMaxLen {
					var bs []byte
					okAll := true
					for k := int64(0); k < ln; k++ {
						b, ok := vals.int(fmt.Sprintf("%s[%d]", p, k))
						if !ok {
							okAll = false
							break
						}
						bs = append(bs, byte(b))
					}
					if okAll {
						predicted[fmt.Sprintf("r%d", i)] = fmt.Sprintf("len:%d:%x", ln, bs)
					}
				}
			} else {
				sb.WriteString(fmt.Sprintf("\tfmt.Printf(\"H2VC-OUT r%d=len:%%d\\n\", len(r%d))\n", i, i))
				if ln, ok := vals.int(p + ".len"); ok {
					predicted[fmt.Sprintf("r%d", i)] = fmt.Sprintf("len:%d", ln)
				}
			}
		case *types.Interface:
			sb.WriteString(fmt.Sprintf("\tfmt.Printf(\"H2VC-OUT r%d=nil:%%v\\n\", r%d == nil)\n", i, i))
			sb.WriteString(fmt.Sprintf("\tfmt.Printf(\"H2VC-INFO r%d=%%v\\n\", r%d)\n", i, i))
			if tag, ok := vals.int(p + ".tag"); ok {
				predicted[fmt.Sprintf("r%d", i)] = fmt.Sprintf("nil:%v", tag == 0)
			}
		case *types.Pointer:
			sb.WriteString(fmt.Sprintf("\tfmt.Printf(\"H2VC-OUT r%d=nil:%%v\\n\", r%d == nil)\n", i, i))
			if ref, ok := vals.int(p); ok {
				predicted[fmt.Sprintf("r%d", i)] = fmt.Sprintf("nil:%v", ref == 0)
			}
		default:
			sb.WriteString(fmt.Sprintf("\t_ = r%d\n", i))
		}
	}
	sb.WriteString("\tfmt.Println(\"H2VC-DONE\")\n}\n")
	return sb.String(), inputs, predicted, nil
}

func sortedKeys(m modelVals) []string {
	var ks []string
	for k := range m {
		ks = append(ks, k)
	}
	sort.Strings(ks)
	return ks
}

func (eng *Engine) runReplayTest(fx *FuncExec, src, work string) (string, error) {
	dir, err := os.MkdirTemp(work, "replay")
	if err != nil {
		return "", err
	}
	defer os.RemoveAll(dir)
	pkgDir := eng.repo
	rel := "."
	if fx.fn.Pkg == eng.utilPkg {
		pkgDir = filepath.Join(eng.repo, "http2utils")
		rel = "./http2utils"
	}
	testFile := filepath.Join(dir, "zz_h2vc_replay_test.go")
	if err := os.WriteFile(testFile, []byte(src), 0o644); err != nil {
		return "", err
	}
	ov := map[string]map[string]string{"Replace": {filepath.Join(pkgDir, "zz_h2vc_replay_test.go"): testFile}}
	ob, _ := json.Marshal(ov)
	ovFile := filepath.Join(dir, "overlay.json")
	if err := os.WriteFile(ovFile, ob, 0o644); err != nil {
		return "", err
	}
	ctx, cancel := context.WithTimeout(context.Background(), 180*time.Second)
	defer cancel()
	cmd := exec.CommandContext(ctx, "sh", "-c", fmt.Sprintf("ulimit -v 8000000; cd %s && go test -overlay %s -vet=off -count=1 -timeout 60s -run '^TestH2VCReplay$' -v %s", eng.repo, ovFile, rel))
	var buf bytes.Buffer
	cmd.Stdout = &buf
	cmd.Stderr = &buf
	err = cmd.Run()
	out := buf.String()
	if !strings.Contains(out, "H2VC-") {
		return truncate(out, 2000), fmt.Errorf("test produced no replay output: %v", err)
	}
	var keep []string
	for _, l := range strings.Split(out, "\n") {
		if strings.HasPrefix(l, "H2VC-") {
			keep = append(keep, l)
		}
	}
	return strings.Join(keep, "\n"), nil
}
