package main

import (
	"bytes"
	"context"
	"crypto/sha256"
	"encoding/hex"
	"fmt"
	"os"
	"os/exec"
	"path/filepath"
	"strings"
	"sync"
	"sync/atomic"
	"time"
)

var scriptSeq int64

type solverSpec struct {
	name string
	argv func(file string, timeoutS int, seed int) []string
}

var solvers = []solverSpec{
	{"z3-new", func(f string, t, seed int) []string {
		return []string{"z3-new", fmt.Sprintf("-T:%d", t), fmt.Sprintf("smt.random_seed=%d", seed), f}
	}},
	{"z3", func(f string, t, seed int) []string {
		return []string{"z3", fmt.Sprintf("-T:%d", t), fmt.Sprintf("smt.random_seed=%d", seed), f}
	}},
	{"cvc5", func(f string, t, seed int) []string {
		return []string{"cvc5", "--lang=smt2", fmt.Sprintf("--tlimit=%d", t*1000), fmt.Sprintf("--seed=%d", seed), f}
	}},
}

type SolveResult struct {
	Status string // unsat, sat, unknown
	Solver string
	Secs   float64
	Output string
	All    map[string]string
}

// buildScript renders the VC of an obligation.
func (o *Obligation) buildScript(getValues []*Term) string {
	fx := o.fx
	ts := fx.ts
	s := &Script{ts: ts}
	s.Asserts = append(s.Asserts, fx.facts[:o.NFacts]...)
	s.Asserts = append(s.Asserts, ts.Not(o.Goal))
	if fx.usesSpec {
		s.Prelude = fx.eng.specText
	}
	return s.Render("", getValues)
}

func runSolver(ctx context.Context, sp solverSpec, file string, timeoutS, seed int) (status, out string, secs float64) {
	argv := sp.argv(file, timeoutS, seed)
	cctx, cancel := context.WithTimeout(ctx, time.Duration(timeoutS+2)*time.Second)
	defer cancel()
	cmd := exec.CommandContext(cctx, argv[0], argv[1:]...)
	var buf bytes.Buffer
	cmd.Stdout = &buf
	cmd.Stderr = &buf
	t0 := time.Now()
	_ = cmd.Run()
	secs = time.Since(t0).Seconds()
	out = buf.String()
	first := ""
	for _, l := range strings.Split(out, "\n") {
		l = strings.TrimSpace(l)
		if l == "sat" || l == "unsat" || l == "unknown" || l == "timeout" {
			first = l
			break
		}
		if strings.HasPrefix(l, "WARNING") {
			fmt.Fprintf(os.Stderr, "h2vc: solver %s: %s\n", sp.name, l)
		}
	}
	switch first {
	case "unsat", "sat":
		return first, out, secs
	}
	if strings.Contains(out, "(error") && !strings.Contains(out, "open file") && !strings.HasPrefix(first, "unknown") && !strings.HasPrefix(first, "timeout") {
		fmt.Fprintf(os.Stderr, "h2vc: solver %s reported an error on %s: %s\n", sp.name, file, firstLines(out, 2))
		if os.Getenv("H2VC_KEEP") != "" {
			_ = os.WriteFile(file+".err.smt2", mustRead(file), 0o644)
		}
	}
	return "unknown", out, secs
}

// solveScript races the solvers on one script.
func solveScript(script string, dir string, timeoutS, seed int, only string) SolveResult {
	h := sha256.Sum256([]byte(script))
	file := filepath.Join(dir, fmt.Sprintf("%s.%d.smt2", hex.EncodeToString(h[:8]), atomic.AddInt64(&scriptSeq, 1)))
	if err := os.WriteFile(file, []byte(script), 0o644); err != nil {
		return SolveResult{Status: "unknown", Output: err.Error()}
	}
	defer os.Remove(file)
	ctx, cancel := context.WithCancel(context.Background())
	defer cancel()
	type res struct {
		name, status, out string
		secs              float64
	}
	ch := make(chan res, len(solvers))
	n := 0
	for _, sp := range solvers {
		if only != "" && sp.name != only {
			continue
		}
		n++
		go func(sp solverSpec) {
			st, out, secs := runSolver(ctx, sp, file, timeoutS, seed)
			ch <- res{sp.name, st, out, secs}
		}(sp)
	}
	all := map[string]string{}
	best := SolveResult{Status: "unknown", All: all}
	for i := 0; i < n; i++ {
		r := <-ch
		all[r.name] = firstLines(r.out, 6)
		if r.status == "unsat" || r.status == "sat" {
			best = SolveResult{Status: r.status, Solver: r.name, Secs: r.secs, Output: r.out, All: all}
			cancel()
			break
		}
		if r.secs > best.Secs {
			best.Secs = r.secs
		}
	}
	return best
}

func firstLines(s string, n int) string {
	lines := strings.Split(s, "\n")
	if len(lines) > n {
		lines = lines[:n]
	}
	return strings.Join(lines, "\n")
}

// solveAll discharges obligations in parallel.
func solveAll(obls []*Obligation, workDir string, timeoutS, seed, par int, cache *solveCache) {
	sem := make(chan struct{}, par)
	var wg sync.WaitGroup
	for _, o := range obls {
		if o.Status != "" {
			continue
		}
		wg.Add(1)
		sem <- struct{}{}
		go func(o *Obligation) {
			defer wg.Done()
			defer func() { <-sem }()
			o.solve(workDir, timeoutS, seed, cache)
		}(o)
	}
	wg.Wait()
}

var renderMu sync.Mutex

func (o *Obligation) solve(workDir string, timeoutS, seed int, cache *solveCache) {
	renderMu.Lock()
	var gv []*Term
	if !o.ExpectSat {
		gv = o.fx.modelTerms()
	}
	script := o.buildScript(gv)
	renderMu.Unlock()
	if cache != nil {
		if r, ok := cache.get(script); ok && r.Status != "unknown" {
			o.apply(r)
			return
		}
	}
	if o.ExpectSat && timeoutS > 4 {
		timeoutS = 4 // canaries and covers only need a quick sat/unknown answer
	}
	r := solveScript(script, workDir, timeoutS, seed, "")
	if cache != nil && r.Status != "unknown" {
		cache.put(script, r)
	}
	o.apply(r)
	if os.Getenv("H2VC_KEEP") != "" && (o.Status != "proved") {
		_ = os.WriteFile(filepath.Join(workDir, sanitize(o.Name)+".smt2"), []byte(script), 0o644)
	}
}

func (o *Obligation) apply(r SolveResult) {
	o.Solver, o.Secs, o.Output = r.Solver, r.Secs, r.Output
	switch r.Status {
	case "unsat":
		o.Status = "proved"
	case "sat":
		o.Status = "refuted"
		o.Model = r.Output
	default:
		o.Status = "unknown"
		var sb strings.Builder
		for k, v := range r.All {
			sb.WriteString(k + ": " + v + "\n")
		}
		o.Output = sb.String()
	}
}

// ---------- result cache keyed by script hash ----------

type solveCache struct {
	dir string
	mu  sync.Mutex
}

func (c *solveCache) path(script string) string {
	h := sha256.Sum256([]byte(script))
	return filepath.Join(c.dir, hex.EncodeToString(h[:16]))
}

func (c *solveCache) get(script string) (SolveResult, bool) {
	b, err := os.ReadFile(c.path(script))
	if err != nil {
		return SolveResult{}, false
	}
	parts := strings.SplitN(string(b), "\n", 4)
	if len(parts) < 4 {
		return SolveResult{}, false
	}
	var secs float64
	fmt.Sscanf(parts[2], "%f", &secs)
	return SolveResult{Status: parts[0], Solver: parts[1] + " (cached)", Secs: secs, Output: parts[3]}, true
}

func (c *solveCache) put(script string, r SolveResult) {
	_ = os.MkdirAll(c.dir, 0o755)
	_ = os.WriteFile(c.path(script), []byte(fmt.Sprintf("%s\n%s\n%f\n%s", r.Status, r.Solver, r.Secs, r.Output)), 0o644)
}

func mustRead(f string) []byte { b, _ := os.ReadFile(f); return b }
