package main

import (
	"bytes"
	"context"
	"crypto/sha256"
	"encoding/hex"
	"fmt"
	"os"
	"os/exec"
	"path/filepath"
	"strings"
	"sync"
	"sync/atomic"
	"time"
)

var scriptSeq int64

type solverSpec struct {
	name string
	argv func(file string, timeoutS int, seed int) []string
}

var solvers = []solverSpec{
	{"z3-new", func(f string, t, seed int) []string {
		return []string{"z3-new", fmt.Sprintf("-T:%d", t), fmt.Sprintf("smt.random_seed=%d", seed), f}
	}},
	{"z3", func(f string, t, seed int) []string {
		return []string{"z3", fmt.Sprintf("-T:%d", t), fmt.Sprintf("smt.random_seed=%d", seed), f}
	}},
	// a second z3 5.1 with another random seed: quantified goals are seed-sensitive, and a goal that one seed
	// decides in a fraction of a second can time out under another
	{"z3-new/s2", func(f string, t, seed int) []string {
		return []string{"z3-new", fmt.Sprintf("-T:%d", t), fmt.Sprintf("smt.random_seed=%d", seed+7919), f}
	}},
	{"cvc5", func(f string, t, seed int) []string {
		return []string{"cvc5", "--lang=smt2", fmt.Sprintf("--tlimit=%d", t*1000), fmt.Sprintf("--seed=%d", seed), f}
	}},
}

type SolveResult struct {
	Status string // unsat, sat, unknown
	Solver string
	Secs   float64
	Output string
	All    map[string]string
}

// buildScript renders the VC of an obligation.
func (o *Obligation) buildScript(getValues []*Term) string {
	return o.buildScriptSeed(getValues, o.Goal)
}

// buildScriptSeed renders the VC with the assumptions relevant to seed (the whole goal, or only
// its consequent for the cheap first attempt).
func (o *Obligation) buildScriptSeed(getValues []*Term, seed *Term) string {
	fx := o.fx
	ts := fx.ts
	s := &Script{ts: ts}
	s.Asserts = append(s.Asserts, fx.relevantFacts(fx.facts[:o.NFacts], seed, seed != o.Goal)...)
	if seed != o.Goal {
		// cheap attempt: arithmetic lemmas only for quotients in the kept facts and in the consequent
		lem := ts.divChainLemmas(append(append([]*Term{}, s.Asserts...), seed))
		if len(lem) > 40 {
			lem = lem[:40]
		}
		s.Asserts = append(s.Asserts, ts.Not(o.Goal))
		s.Asserts = append(s.Asserts, lem...)
	} else {
		s.Asserts = append(s.Asserts, ts.Not(o.Goal))
		s.Asserts = append(s.Asserts, ts.divChainLemmas(s.Asserts)...)
	}
	if fx.usesSpec {
		s.Prelude = fx.specPrelude()
	}
	return s.Render("", getValues)
}

func runSolver(ctx context.Context, sp solverSpec, file string, timeoutS, seed int) (status, out string, secs float64) {
	argv := sp.argv(file, timeoutS, seed)
	cctx, cancel := context.WithTimeout(ctx, time.Duration(timeoutS+2)*time.Second)
	defer cancel()
	cmd := exec.CommandContext(cctx, argv[0], argv[1:]...)
	var buf bytes.Buffer
	cmd.Stdout = &buf
	cmd.Stderr = &buf
	t0 := time.Now()
	_ = cmd.Run()
	secs = time.Since(t0).Seconds()
	out = buf.String()
	first := ""
	for _, l := range strings.Split(out, "\n") {
		l = strings.TrimSpace(l)
		if l == "sat" || l == "unsat" || l == "unknown" || l == "timeout" {
			first = l
			break
		}
		if strings.HasPrefix(l, "WARNING") {
			fmt.Fprintf(os.Stderr, "h2vc: solver %s: %s\n", sp.name, l)
		}
	}
	switch first {
	case "unsat", "sat":
		return first, out, secs
	}
	if strings.Contains(out, "(error") && !strings.Contains(out, "open file") && !strings.HasPrefix(first, "unknown") && !strings.HasPrefix(first, "timeout") {
		fmt.Fprintf(os.Stderr, "h2vc: solver %s reported an error on %s: %s\n", sp.name, file, firstLines(out, 2))
		if os.Getenv("H2VC_KEEP") != "" {
			_ = os.WriteFile(file+".err.smt2", mustRead(file), 0o644)
		}
	}
	return "unknown", out, secs
}

// solveScript races the solvers on one script.
// solveScript first gives z3 5.1 a few seconds on its own (it decides most queries), then races all
// three solvers with the full time limit.
func solveScript(script string, dir string, timeoutS, seed int, only string) SolveResult {
	if only == "" && timeoutS > 3 {
		r := solveScriptWith(script, dir, 3, seed, "z3-new")
		if r.Status != "unknown" {
			return r
		}
		r2 := solveScriptWith(script, dir, timeoutS, seed, "")
		r2.Secs += r.Secs
		return r2
	}
	return solveScriptWith(script, dir, timeoutS, seed, only)
}

func solveScriptWith(script string, dir string, timeoutS, seed int, only string) SolveResult {
	h := sha256.Sum256([]byte(script))
	file := filepath.Join(dir, fmt.Sprintf("%s.%d.smt2", hex.EncodeToString(h[:8]), atomic.AddInt64(&scriptSeq, 1)))
	if err := os.WriteFile(file, []byte(script), 0o644); err != nil {
		return SolveResult{Status: "unknown", Output: err.Error()}
	}
	defer os.Remove(file)
	ctx, cancel := context.WithCancel(context.Background())
	defer cancel()
	type res struct {
		name, status, out string
		secs              float64
	}
	ch := make(chan res, len(solvers))
	n := 0
	for _, sp := range solvers {
		if only != "" && sp.name != only {
			continue
		}
		n++
		go func(sp solverSpec) {
			st, out, secs := runSolver(ctx, sp, file, timeoutS, seed)
			ch <- res{sp.name, st, out, secs}
		}(sp)
	}
	all := map[string]string{}
	best := SolveResult{Status: "unknown", All: all}
	for i := 0; i < n; i++ {
		r := <-ch
		all[r.name] = firstLines(r.out, 6)
		if r.status == "unsat" || r.status == "sat" {
			best = SolveResult{Status: r.status, Solver: r.name, Secs: r.secs, Output: r.out, All: all}
			cancel()
			break
		}
		if r.secs > best.Secs {
			best.Secs = r.secs
		}
	}
	return best
}

func firstLines(s string, n int) string {
	lines := strings.Split(s, "\n")
	if len(lines) > n {
		lines = lines[:n]
	}
	return strings.Join(lines, "\n")
}

// solveAll discharges obligations in parallel.
func solveAll(obls []*Obligation, workDir string, timeoutS, seed, par int, cache *solveCache) {
	sem := make(chan struct{}, par)
	var wg sync.WaitGroup
	for _, o := range obls {
		if o.Status != "" {
			continue
		}
		wg.Add(1)
		sem <- struct{}{}
		go func(o *Obligation) {
			defer wg.Done()
			defer func() { <-sem }()
			o.solve(workDir, timeoutS, seed, cache)
		}(o)
	}
	wg.Wait()
	// second chance for undecided obligations: the machine was fully loaded during the first pass and solver
	// timeouts are wall-clock, so an obligation that needs a few seconds can be starved. Retry them few at a time
	// with other seeds. (Only "unknown" is retried; a refutation stands.)
	var again []*Obligation
	for _, o := range obls {
		if o.Status == "unknown" && !o.ExpectSat && !o.Brief {
			again = append(again, o)
		}
	}
	if len(again) == 0 || len(again) > 24 {
		return
	}
	sem2 := make(chan struct{}, 3)
	for _, o := range again {
		wg.Add(1)
		sem2 <- struct{}{}
		go func(o *Obligation) {
			defer wg.Done()
			defer func() { <-sem2 }()
			first := o.Secs
			o.Status = ""
			for _, s := range o.Sub {
				if s.Status == "unknown" {
					s.Status = ""
				}
			}
			o.solve(workDir, timeoutS, seed+104729, cache)
			o.Secs += first
			o.Retried = true
		}(o)
	}
	wg.Wait()
}

var renderMu sync.Mutex

func (o *Obligation) solve(workDir string, timeoutS, seed int, cache *solveCache) {
	if o.Brief && timeoutS > 4 {
		timeoutS = 4
	}
	if len(o.Sub) > 0 {
		quick := 4
		if timeoutS < quick {
			quick = timeoutS
		}
		if !o.OnlySubs {
			o.solveOne(workDir, quick, seed, cache)
			if o.Status == "proved" || o.Status == "refuted" {
				return
			}
		}
		var wg sync.WaitGroup
		for _, s := range o.Sub {
			if s.Status != "" {
				continue
			}
			wg.Add(1)
			go func(s *Obligation) {
				defer wg.Done()
				subSem <- struct{}{}
				defer func() { <-subSem }()
				s.solveOne(workDir, timeoutS, seed, cache)
			}(s)
		}
		wg.Wait()
		all := true
		secs := o.Secs
		for _, s := range o.Sub {
			secs += s.Secs
			if s.Status == "refuted" {
				o.Status, o.Solver, o.Model, o.Output = "refuted", s.Solver, s.Model, s.Output
				o.Goal = s.Goal
				o.Secs = secs
				return
			}
			if s.Status != "proved" {
				all = false
				o.Output = "case " + s.Name + " undecided:\n" + s.Output
			}
		}
		o.Secs = secs
		if all {
			o.Status, o.Solver = "proved", fmt.Sprintf("%d cases", len(o.Sub))
		} else {
			o.Status = "unknown"
		}
		return
	}
	o.solveOne(workDir, timeoutS, seed, cache)
}

var subSem = make(chan struct{}, 12)

func (o *Obligation) solveOne(workDir string, timeoutS, seed int, cache *solveCache) {
	renderMu.Lock()
	var gv []*Term
	if !o.ExpectSat {
		gv = o.fx.modelTerms()
	}
	script := o.buildScript(gv)
	renderMu.Unlock()
	if cache != nil {
		if r, ok := cache.get(script); ok && r.Status != "unknown" {
			o.apply(r)
			return
		}
	}
	// cheap first attempt: only the assumptions connected to the consequent of the goal (the path
	// condition stays as a hypothesis but does not pull in the facts of every earlier statement).
	// Fewer assumptions can only make the query harder to refute, so an unsat answer stands.
	if !o.ExpectSat && o.Goal.op == "=>" && timeoutS > 3 {
		renderMu.Lock()
		small := o.buildScriptSeed(nil, o.Goal.args[1])
		renderMu.Unlock()
		if small != script {
			if os.Getenv("H2VC_KEEP") != "" {
				_ = os.WriteFile(filepath.Join(workDir, sanitize(o.Name)+".small.smt2"), []byte(small), 0o644)
			}
			r := solveScriptWith(small, workDir, 3, seed, "z3-new")
			if r.Status == "unsat" {
				o.apply(r)
				return
			}
		}
	}
	if o.ExpectSat && timeoutS > 4 {
		timeoutS = 4 // canaries and covers only need a quick sat/unknown answer
	}
	r := solveScript(script, workDir, timeoutS, seed, "")
	if cache != nil && r.Status != "unknown" {
		cache.put(script, r)
	}
	o.apply(r)
	if os.Getenv("H2VC_KEEP") != "" && (o.Status != "proved" || o.ExpectSat) {
		_ = os.WriteFile(filepath.Join(workDir, sanitize(o.Name)+".smt2"), []byte(script), 0o644)
	}
}

func (o *Obligation) apply(r SolveResult) {
	o.Solver, o.Secs, o.Output = r.Solver, r.Secs, r.Output
	switch r.Status {
	case "unsat":
		o.Status = "proved"
	case "sat":
		o.Status = "refuted"
		o.Model = r.Output
	default:
		o.Status = "unknown"
		var sb strings.Builder
		for k, v := range r.All {
			sb.WriteString(k + ": " + v + "\n")
		}
		o.Output = sb.String()
	}
}

// ---------- result cache keyed by script hash ----------

type solveCache struct {
	dir string
	mu  sync.Mutex
}

func (c *solveCache) path(script string) string {
	h := sha256.Sum256([]byte(script))
	return filepath.Join(c.dir, hex.EncodeToString(h[:16]))
}

func (c *solveCache) get(script string) (SolveResult, bool) {
	b, err := os.ReadFile(c.path(script))
	if err != nil {
		return SolveResult{}, false
	}
	parts := strings.SplitN(string(b), "\n", 4)
	if len(parts) < 4 {
		return SolveResult{}, false
	}
	var secs float64
	fmt.Sscanf(parts[2], "%f", &secs)
	return SolveResult{Status: parts[0], Solver: parts[1] + " (cached)", Secs: secs, Output: parts[3]}, true
}

func (c *solveCache) put(script string, r SolveResult) {
	_ = os.MkdirAll(c.dir, 0o755)
	_ = os.WriteFile(c.path(script), []byte(fmt.Sprintf("%s\n%s\n%f\n%s", r.Status, r.Solver, r.Secs, r.Output)), 0o644)
}

func mustRead(f string) []byte { b, _ := os.ReadFile(f); return b }

// relevantFacts drops assumptions that cannot matter for a goal: a fact that
// mentions symbols introduced during execution (havoc values, results of
// calls, new arrays) is kept only when one of those symbols is already
// connected to the goal. Facts over input symbols only are always kept.
// Dropping assumptions is sound; it only makes queries smaller.
func (fx *FuncExec) relevantFacts(facts []*Term, goal *Term, strict bool) []*Term {
	if os.Getenv("H2VC_ALLFACTS") != "" {
		return facts
	}
	cone := map[int]bool{}
	for _, v := range fx.varsOf(goal) {
		cone[v.id] = true
	}
	type finfo struct {
		all, fresh []*Term
	}
	infos := make([]finfo, len(facts))
	for i, f := range facts {
		vs := fx.varsOf(f)
		infos[i].all = vs
		for _, v := range vs {
			if !fx.isInputVar(v) {
				infos[i].fresh = append(infos[i].fresh, v)
			}
		}
	}
	inc := make([]bool, len(facts))
	// hub symbols (allocation counter, iteration flags, whole heaps) connect everything: in strict mode they do not
	// count as a connection, and the closure is limited to three rounds
	hub := map[int]bool{}
	if strict {
		cnt := map[int]int{}
		for i := range facts {
			for _, v := range infos[i].all {
				cnt[v.id]++
			}
		}
		for id, c := range cnt {
			if c*5 > len(facts) && c > 8 {
				hub[id] = true
			}
		}
		for id := range hub {
			delete(cone, id)
		}
	}
	rounds := 0
	for changed := true; changed; {
		changed = false
		rounds++
		if strict && rounds > 3 {
			break
		}
		for i := range facts {
			if inc[i] {
				continue
			}
			take := len(infos[i].fresh) == 0 && !strict
			for _, v := range infos[i].fresh {
				if cone[v.id] {
					take = true
					break
				}
			}
			if strict && !take {
				// strict mode: facts over inputs only are kept when they touch the cone as well
				for _, v := range infos[i].all {
					if cone[v.id] {
						take = true
						break
					}
				}
			}
			if !take {
				continue
			}
			inc[i] = true
			for _, v := range infos[i].all {
				if !cone[v.id] && !hub[v.id] {
					cone[v.id] = true
					changed = true
				}
			}
		}
	}
	var out []*Term
	for i, f := range facts {
		if inc[i] {
			out = append(out, f)
		}
	}
	return out
}

func (fx *FuncExec) isInputVar(v *Term) bool {
	return strings.HasPrefix(v.name, "p.") || strings.HasPrefix(v.name, "H0!") || strings.HasPrefix(v.name, "fv.")
}

func (fx *FuncExec) varsOf(t *Term) []*Term {
	if fx.varCache == nil {
		fx.varCache = map[int][]*Term{}
	}
	if vs, ok := fx.varCache[t.id]; ok {
		return vs
	}
	seen := map[int]bool{}
	var out []*Term
	var walk func(t *Term)
	walk = func(t *Term) {
		if seen[t.id] {
			return
		}
		seen[t.id] = true
		if t.op == "var" {
			out = append(out, t)
			return
		}
		for _, a := range t.args {
			walk(a)
		}
		for _, p := range t.pat {
			walk(p)
		}
	}
	walk(t)
	fx.varCache[t.id] = out
	return out
}

// crossCheck re-solves every obligation that one solver discharged with the other solvers of the portfolio (thorough
// tier): an independent unsat confirms it, unknown leaves it unconfirmed, and sat is a disagreement between solvers,
// which is reported as a violation because one of the two answers is wrong.
func crossCheck(obls []*Obligation, workDir string, timeoutS, seed, par int) (checked, confirmed int, disagreed []*Obligation) {
	var leaves []*Obligation
	var walk func(o *Obligation)
	walk = func(o *Obligation) {
		if len(o.Sub) > 0 {
			for _, s := range o.Sub {
				walk(s)
			}
			if !o.OnlySubs && o.Status == "proved" && !strings.Contains(o.Solver, "cases") {
				leaves = append(leaves, o)
			}
			return
		}
		leaves = append(leaves, o)
	}
	for _, o := range obls {
		if o.ExpectSat || o.fx == nil || o.Status != "proved" {
			continue
		}
		walk(o)
	}
	var mu sync.Mutex
	var wg sync.WaitGroup
	sem := make(chan struct{}, par)
	for _, o := range leaves {
		if o.Status != "proved" || o.fx == nil || o.Goal == nil {
			continue
		}
		first := strings.TrimSuffix(o.Solver, " (cached)")
		if first == "simplifier" || first == "contract" || first == "" {
			continue
		}
		wg.Add(1)
		sem <- struct{}{}
		go func(o *Obligation, first string) {
			defer wg.Done()
			defer func() { <-sem }()
			renderMu.Lock()
			script := o.buildScript(nil)
			renderMu.Unlock()
			status := "unknown"
			who := ""
			type xr struct{ status, who string }
			ch := make(chan xr, len(solvers))
			n := 0
			for _, sp := range solvers {
				if sp.name == first || (strings.HasPrefix(first, "z3-new") && strings.HasPrefix(sp.name, "z3-new")) {
					continue
				}
				n++
				go func(name string) {
					r := solveScriptWith(script, workDir, timeoutS, seed+1, name)
					ch <- xr{r.Status, name}
				}(sp.name)
			}
			for i := 0; i < n; i++ {
				r := <-ch
				if r.status == "sat" {
					status, who = "sat", r.who
					break
				}
				if r.status == "unsat" && status != "unsat" {
					status, who = "unsat", r.who
				}
			}
			mu.Lock()
			checked++
			switch status {
			case "unsat":
				confirmed++
				o.Confirmed = who
			case "sat":
				o.Output = "solver disagreement: " + first + " said unsat, " + who + " said sat"
				disagreed = append(disagreed, o)
			}
			mu.Unlock()
		}(o, first)
	}
	wg.Wait()
	return
}
