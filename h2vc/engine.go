package main

import (
	"bufio"
	"fmt"
	"go/ast"
	"go/token"
	"go/types"
	"os"
	"path/filepath"
	"regexp"
	"sort"
	"strconv"
	"strings"

	"golang.org/x/tools/go/packages"
	"golang.org/x/tools/go/ssa"
	"golang.org/x/tools/go/ssa/ssautil"
)

type SpecParam struct{ Name, Kind string }
type SpecFun struct {
	Name   string
	Params []SpecParam
	Result string
	File   string
	// lemmas (contract expressions over the parameter names): instantiated as facts at every application of the
	// function, and proved once per run against the function definitions (obligations spec/lemma:<name>#k)
	Lemmas []string
}

type implInfo struct {
	id  int
	typ types.Type
	fn  *ssa.Function
}

type Engine struct {
	repo      string
	prog      *ssa.Program
	pkgs      []*packages.Package
	mainPkg   *ssa.Package
	utilPkg   *ssa.Package
	cs        *ContractSet
	heapSorts map[string]string
	cellCache map[*ssa.Alloc]bool
	typeIDs   map[string]int
	typeByID  map[int]types.Type
	strIDs    map[string]int64
	stringByID map[int64]string
	funcIDs   map[*ssa.Function]int
	embTags   map[string]int
	ghostFields map[string]types.Type
	specFuns  map[string]*SpecFun
	specText  string
	specFiles map[string]string // file -> SMT text
	specOrder []string
	globals   map[string]*globalInit
	mutableGlobals map[string]bool
	sealed    map[string]bool
	funcsByName map[string]*ssa.Function
	loadSecs  float64
}

type globalInit struct {
	kind  string // "bytes", "errorsNew", "Error", "int"
	bytes string
	code  int64
	frame int64
	msg   string
	idx   int
	entries [][2]string
	table   []int64
}

func LoadEngine(repo string, contractFiles map[string]string, specDir string) (*Engine, error) {
	cfg := &packages.Config{Mode: packages.LoadAllSyntax, Dir: repo, BuildFlags: []string{"-tags=verif"}}
	pkgs, err := packages.Load(cfg, "github.com/dgrr/http2", "github.com/dgrr/http2/http2utils")
	if err != nil {
		return nil, err
	}
	for _, p := range pkgs {
		for _, e := range p.Errors {
			return nil, fmt.Errorf("package %s: %v", p.PkgPath, e)
		}
	}
	prog, spkgs := ssautil.AllPackages(pkgs, ssa.NaiveForm|ssa.GlobalDebug)
	prog.Build()
	eng := &Engine{repo: repo, prog: prog, pkgs: pkgs, heapSorts: map[string]string{allocKey: SInt}, cellCache: map[*ssa.Alloc]bool{},
		typeIDs: map[string]int{}, typeByID: map[int]types.Type{}, strIDs: map[string]int64{}, stringByID: map[int64]string{},
		funcIDs: map[*ssa.Function]int{}, embTags: map[string]int{}, ghostFields: map[string]types.Type{}, specFuns: map[string]*SpecFun{},
		globals: map[string]*globalInit{}, mutableGlobals: map[string]bool{}, sealed: map[string]bool{}, funcsByName: map[string]*ssa.Function{}}
	for i, p := range pkgs {
		switch p.PkgPath {
		case "github.com/dgrr/http2":
			eng.mainPkg = spkgs[i]
		case "github.com/dgrr/http2/http2utils":
			eng.utilPkg = spkgs[i]
		}
	}
	if eng.mainPkg == nil || eng.utilPkg == nil {
		return nil, fmt.Errorf("packages not found")
	}
	cs, err := ParseContracts(contractFiles)
	if err != nil {
		return nil, err
	}
	eng.cs = cs
	for _, n := range cs.Sealed {
		eng.sealed[n] = true
	}
	if err := eng.loadSpecs(specDir); err != nil {
		return nil, err
	}
	eng.indexFunctions()
	eng.scanGlobals()
	// register every named struct type of the package so type ids are stable
	var names []string
	for n, m := range eng.mainPkg.Members {
		if _, ok := m.(*ssa.Type); ok {
			names = append(names, n)
		}
	}
	sort.Strings(names)
	for _, n := range names {
		t := eng.mainPkg.Members[n].(*ssa.Type).Type()
		eng.typeID(types.NewPointer(t))
		eng.typeID(t)
	}
	return eng, nil
}

func (eng *Engine) indexFunctions() {
	for fn := range ssautil.AllFunctions(eng.prog) {
		if fn.Pkg == eng.mainPkg || fn.Pkg == eng.utilPkg {
			eng.funcsByName[eng.contractKey(fn)] = fn
		}
	}
}

// contractKey: "http2.readInt", "http2.(*HPACK).peek", "http2.(*serverConn).handleStreams$1"
func (eng *Engine) contractKey(fn *ssa.Function) string {
	pk := "http2"
	if fn.Pkg == eng.utilPkg {
		pk = "http2utils"
	}
	if par := fn.Parent(); par != nil {
		// an anonymous function assigned to a local variable is addressed by that name:
		// "(*serverConn).handleStreams.closeStream" (closure ordinals shift when code moves)
		if n := closureVarName(par, fn); n != "" {
			return eng.contractKey(par) + "." + n
		}
	}
	return pk + "." + fn.RelString(fn.Pkg.Pkg)
}

func closureVarName(par, fn *ssa.Function) string {
	for _, b := range par.Blocks {
		for _, in := range b.Instrs {
			st, ok := in.(*ssa.Store)
			if !ok {
				continue
			}
			var f *ssa.Function
			switch v := st.Val.(type) {
			case *ssa.MakeClosure:
				f, _ = v.Fn.(*ssa.Function)
			case *ssa.Function:
				f = v
			}
			if f != fn {
				continue
			}
			if a, ok := st.Addr.(*ssa.Alloc); ok && a.Comment != "" {
				return a.Comment
			}
		}
	}
	return ""
}

func (eng *Engine) contractFor(fn *ssa.Function) *Contract {
	if fn.Pkg != eng.mainPkg && fn.Pkg != eng.utilPkg {
		return nil
	}
	return eng.cs.ByFunc[eng.contractKey(fn)]
}

func (eng *Engine) inPackage(fn *ssa.Function) bool {
	return fn.Pkg == eng.mainPkg || fn.Pkg == eng.utilPkg
}

func (eng *Engine) utilsPkg() *types.Package { return eng.utilPkg.Pkg }

func (eng *Engine) lookup(pkg *types.Package, name string) types.Object {
	if pkg == nil {
		pkg = eng.mainPkg.Pkg
	}
	if o := pkg.Scope().Lookup(name); o != nil {
		return o
	}
	if o := eng.mainPkg.Pkg.Scope().Lookup(name); o != nil {
		return o
	}
	return nil
}

func (eng *Engine) globalFor(v *types.Var) *ssa.Global {
	for _, p := range []*ssa.Package{eng.mainPkg, eng.utilPkg} {
		if p.Pkg == v.Pkg() {
			if g, ok := p.Members[v.Name()].(*ssa.Global); ok {
				return g
			}
		}
	}
	return nil
}

func (eng *Engine) namedType(name string) types.Type {
	o := eng.mainPkg.Pkg.Scope().Lookup(name)
	if o == nil {
		panic("no type " + name)
	}
	return o.Type()
}

func (eng *Engine) typeID(t types.Type) int {
	k := strings.ReplaceAll(types.TypeString(t, nil), "byte", "uint8")
	if id, ok := eng.typeIDs[k]; ok {
		return id
	}
	id := len(eng.typeIDs) + 1
	eng.typeIDs[k] = id
	eng.typeByID[id] = t
	return id
}

func (eng *Engine) maxTypeID() int { return 100000 }

func (eng *Engine) stringID(s string) int64 {
	if id, ok := eng.strIDs[s]; ok {
		return id
	}
	id := int64(len(eng.strIDs) + 1)
	eng.strIDs[s] = id
	eng.stringByID[id] = s
	return id
}

func (eng *Engine) funcID(f *ssa.Function) int {
	if id, ok := eng.funcIDs[f]; ok {
		return id
	}
	id := len(eng.funcIDs) + 1
	eng.funcIDs[f] = id
	return id
}

func (eng *Engine) embTag(key string) int {
	if t, ok := eng.embTags[key]; ok {
		return t
	}
	t := len(eng.embTags)
	if t >= 1000 {
		panic("too many embedded array keys")
	}
	eng.embTags[key] = t
	return t
}

func (eng *Engine) implementers(m *types.Func) []implInfo {
	var out []implInfo
	recv := m.Type().(*types.Signature).Recv()
	if recv == nil {
		return nil
	}
	iface, ok := recv.Type().Underlying().(*types.Interface)
	if !ok {
		return nil
	}
	var names []string
	for n, mem := range eng.mainPkg.Members {
		if _, ok := mem.(*ssa.Type); ok {
			names = append(names, n)
		}
	}
	sort.Strings(names)
	for _, n := range names {
		t := eng.mainPkg.Members[n].(*ssa.Type).Type()
		for _, tt := range []types.Type{t, types.NewPointer(t)} {
			if _, isIface := tt.Underlying().(*types.Interface); isIface {
				continue
			}
			if !types.Implements(tt, iface) {
				continue
			}
			// value types whose pointer also implements: both can be boxed; keep both
			sel := eng.prog.MethodSets.MethodSet(tt).Lookup(m.Pkg(), m.Name())
			if sel == nil {
				continue
			}
			fn := eng.prog.MethodValue(sel)
			if fn == nil {
				continue
			}
			out = append(out, implInfo{eng.typeID(tt), tt, fn})
		}
	}
	return out
}

func (eng *Engine) sealedInterface(m *types.Func) bool {
	recv := m.Type().(*types.Signature).Recv()
	if recv == nil {
		return false
	}
	if n, ok := recv.Type().(*types.Named); ok {
		return eng.sealed[n.Obj().Name()]
	}
	return false
}

var pureExternal = []string{"fmt.", "errors.New", "time.", "strconv.", "log.", "debug.Stack", "runtime.",
	"(*log.Logger).", "(time.", "(*time.", "math.", "os.", "(fmt.", "(*sync.Mutex).", "(*sync.RWMutex).",
	"(*sync.WaitGroup).", "(*sync.Once).", "strings.", "unicode.", "(*strings.", "(error).Error", "(*errors.", "reflect."}

func (eng *Engine) isPureExternal(name string) bool {
	for _, p := range pureExternal {
		if strings.HasPrefix(name, p) {
			return true
		}
	}
	return false
}

// ---------- spec library ----------

var reSpecLemma = regexp.MustCompile(`^;;\s*lemma\s+(\S+)\s*:\s*(.*)$`)
var reSpecSig = regexp.MustCompile(`^;;\s*fun\s+(\S+)\s*(.*)\s+(\S+)\s*$`)
var reSpecParam = regexp.MustCompile(`\((\S+)\s+(\S+)\)`)

func (eng *Engine) loadSpecs(dir string) error {
	files, _ := filepath.Glob(filepath.Join(dir, "*.smt2"))
	sort.Strings(files)
	eng.specFiles = map[string]string{}
	for _, f := range files {
		var sb strings.Builder
		eng.specOrder = append(eng.specOrder, f)
		fh, err := os.Open(f)
		if err != nil {
			return err
		}
		sc := bufio.NewScanner(fh)
		sc.Buffer(make([]byte, 1<<22), 1<<22)
		for sc.Scan() {
			line := sc.Text()
			if m := reSpecSig.FindStringSubmatch(line); m != nil {
				sf := &SpecFun{Name: m[1], Result: m[3], File: f}
				for _, pm := range reSpecParam.FindAllStringSubmatch(m[2], -1) {
					sf.Params = append(sf.Params, SpecParam{pm[1], pm[2]})
				}
				eng.specFuns[sf.Name] = sf
				continue
			}
			if m := reSpecLemma.FindStringSubmatch(line); m != nil {
				if sf := eng.specFuns[m[1]]; sf != nil {
					sf.Lemmas = append(sf.Lemmas, strings.TrimSpace(m[2]))
				}
				continue
			}
			if strings.HasPrefix(strings.TrimSpace(line), ";") {
				continue
			}
			sb.WriteString(line + "\n")
		}
		fh.Close()
		eng.specFiles[f] = sb.String()
	}
	return nil
}

// ---------- globals ----------

func (eng *Engine) scanGlobals() {
	// mutable: any instruction other than a direct load uses the global outside init
	for fn := range ssautil.AllFunctions(eng.prog) {
		if !eng.inPackage(fn) || fn.Name() == "init" || strings.HasPrefix(fn.Name(), "init#") {
			continue
		}
		if fn.Synthetic != "" && strings.Contains(fn.Synthetic, "package initializer") {
			continue
		}
		for _, b := range fn.Blocks {
			for _, in := range b.Instrs {
				for _, op := range in.Operands(nil) {
					g, ok := (*op).(*ssa.Global)
					if !ok || !eng.inPackage2(g) {
						continue
					}
					switch u := in.(type) {
					case *ssa.UnOp:
						if u.Op == token.MUL {
							continue
						}
					case *ssa.IndexAddr:
						// &g[i]: fine when the address is only loaded from
						if onlyLoaded(u) {
							continue
						}
					case *ssa.FieldAddr:
						if onlyLoadedOrCalled(u) {
							continue
						}
					case *ssa.DebugRef:
						continue
					}
					eng.mutableGlobals[globalName(g)] = true
				}
			}
		}
	}
	// initial values from the AST
	idx := 0
	for _, p := range eng.pkgs {
		for _, f := range p.Syntax {
			for _, d := range f.Decls {
				gd, ok := d.(*ast.GenDecl)
				if !ok || gd.Tok != token.VAR {
					continue
				}
				for _, s := range gd.Specs {
					vs := s.(*ast.ValueSpec)
					if len(vs.Values) != len(vs.Names) {
						continue
					}
					for i, n := range vs.Names {
						name := n.Name
						if p.PkgPath != "github.com/dgrr/http2" {
							name = "http2utils." + name
						}
						if gi := eng.initOf(p, vs.Values[i]); gi != nil {
							idx++
							gi.idx = idx
							eng.globals[name] = gi
						}
					}
				}
			}
		}
	}
}

func (eng *Engine) inPackage2(g *ssa.Global) bool { return g.Pkg == eng.mainPkg || g.Pkg == eng.utilPkg }

func onlyLoaded(v ssa.Value) bool {
	refs := v.Referrers()
	if refs == nil {
		return true
	}
	for _, r := range *refs {
		switch u := r.(type) {
		case *ssa.UnOp:
			if u.Op != token.MUL {
				return false
			}
		case *ssa.DebugRef:
		default:
			return false
		}
	}
	return true
}

func onlyLoadedOrCalled(v ssa.Value) bool {
	refs := v.Referrers()
	if refs == nil {
		return true
	}
	for _, r := range *refs {
		switch u := r.(type) {
		case *ssa.UnOp:
			if u.Op != token.MUL {
				return false
			}
		case *ssa.DebugRef:
		case *ssa.Call, *ssa.Defer, *ssa.Go:
			// method call on &g.field (e.g. pool.Get): the callee decides; pools are handled by intrinsics
		default:
			return false
		}
	}
	return true
}

func (eng *Engine) initOf(p *packages.Package, e ast.Expr) *globalInit {
	if cl, ok := e.(*ast.CompositeLit); ok {
		// [N]uintX{c0, c1, ...}: a constant lookup table
		if at, ok := cl.Type.(*ast.ArrayType); ok && at.Len != nil {
			var vals []int64
			okAll := len(cl.Elts) > 0
			for _, el := range cl.Elts {
				tv, ok := p.TypesInfo.Types[el]
				if !ok || tv.Value == nil {
					okAll = false
					break
				}
				v, err := strconv.ParseInt(tv.Value.ExactString(), 10, 64)
				if err != nil {
					okAll = false
					break
				}
				vals = append(vals, v)
			}
			if okAll {
				return &globalInit{kind: "intarray", table: vals}
			}
		}
		if at, ok := cl.Type.(*ast.ArrayType); ok && at.Len == nil {
			if _, isPtr := at.Elt.(*ast.StarExpr); isPtr {
				gi := &globalInit{kind: "ptrslice", code: int64(len(cl.Elts))}
				// entries of the form {key: []byte("..."), value: []byte("...")} are recorded for the static table
				for _, el := range cl.Elts {
					ent := [2]string{}
					if c2, ok := el.(*ast.CompositeLit); ok {
						for _, kv := range c2.Elts {
							if k, ok := kv.(*ast.KeyValueExpr); ok {
								if id, ok := k.Key.(*ast.Ident); ok {
									if call, ok := k.Value.(*ast.CallExpr); ok && len(call.Args) == 1 {
										if tv, ok := p.TypesInfo.Types[call.Args[0]]; ok && tv.Value != nil {
											if sv, err := strconv.Unquote(tv.Value.ExactString()); err == nil {
												if id.Name == "key" {
													ent[0] = sv
												} else if id.Name == "value" {
													ent[1] = sv
												}
											}
										}
									}
								}
							}
						}
					}
					gi.entries = append(gi.entries, ent)
				}
				return gi
			}
		}
	}
	call, ok := e.(*ast.CallExpr)
	if !ok {
		return nil
	}
	strArg := func(x ast.Expr) (string, bool) {
		tv, ok := p.TypesInfo.Types[x]
		if ok && tv.Value != nil {
			if s, err := strconv.Unquote(tv.Value.ExactString()); err == nil {
				return s, true
			}
		}
		return "", false
	}
	intArg := func(x ast.Expr) (int64, bool) {
		tv, ok := p.TypesInfo.Types[x]
		if ok && tv.Value != nil {
			if i, err := strconv.ParseInt(tv.Value.ExactString(), 10, 64); err == nil {
				return i, true
			}
		}
		return 0, false
	}
	// []byte("lit")
	if at, ok := call.Fun.(*ast.ArrayType); ok && at.Len == nil && len(call.Args) == 1 {
		if id, ok := at.Elt.(*ast.Ident); ok && id.Name == "byte" {
			if s, ok := strArg(call.Args[0]); ok {
				return &globalInit{kind: "bytes", bytes: s}
			}
		}
	}
	switch fn := call.Fun.(type) {
	case *ast.SelectorExpr:
		if x, ok := fn.X.(*ast.Ident); ok && x.Name == "errors" && fn.Sel.Name == "New" && len(call.Args) == 1 {
			if s, ok := strArg(call.Args[0]); ok {
				return &globalInit{kind: "errorsNew", msg: s}
			}
		}
	case *ast.Ident:
		frame := map[string]int64{"NewError": 3, "NewGoAwayError": 7, "NewResetStreamError": 3}
		if ft, ok := frame[fn.Name]; ok && len(call.Args) == 2 {
			c, ok1 := intArg(call.Args[0])
			s, ok2 := strArg(call.Args[1])
			if ok1 && ok2 {
				return &globalInit{kind: "Error", code: c, frame: ft, msg: s}
			}
		}
	}
	return nil
}

func (eng *Engine) immutableGlobalKey(key string) bool {
	name := strings.TrimPrefix(key, "global:")
	if i := strings.IndexAny(name, "#"); i >= 0 {
		name = name[:i]
	}
	if i := strings.Index(name, "."); i >= 0 && !strings.HasPrefix(name, "http2utils.") {
		name = name[:i]
	}
	return !eng.mutableGlobals[name]
}

// errorStringTypeID is the dynamic type id of values made by errors.New.
func (eng *Engine) errorStringTypeID() int {
	if id, ok := eng.typeIDs["*errors.errorString"]; ok {
		return id
	}
	id := len(eng.typeIDs) + 1
	eng.typeIDs["*errors.errorString"] = id
	return id
}

func (eng *Engine) inPackageType(n *types.Named) bool {
	return n.Obj().Pkg() == eng.mainPkg.Pkg || n.Obj().Pkg() == eng.utilPkg.Pkg
}

// tablePrelude renders a constant table as an SMT function (balanced ite tree over the index).
func (eng *Engine) tablePrelude(name string) string {
	gi := eng.globals[name]
	if gi == nil || gi.kind != "intarray" {
		return ""
	}
	var rec func(lo, hi int) string
	rec = func(lo, hi int) string {
		if hi-lo == 1 {
			return strconv.FormatInt(gi.table[lo], 10)
		}
		mid := (lo + hi) / 2
		return fmt.Sprintf("(ite (< i %d) %s %s)", mid, rec(lo, mid), rec(mid, hi))
	}
	return fmt.Sprintf("(define-fun tbl.%s ((i Int)) Int %s)\n", sanitize(name), rec(0, len(gi.table)))
}

func (eng *Engine) sortedTypeIDs() []int {
	ids := make([]int, 0, len(eng.typeByID))
	for id := range eng.typeByID {
		ids = append(ids, id)
	}
	sort.Ints(ids)
	return ids
}

// displayName is the name used for a function in obligation names: closures assigned to a local variable are
// called by that variable's name (stable when closures are added or reordered), not by their ordinal.
func (eng *Engine) displayName(fn *ssa.Function) string {
	if par := fn.Parent(); par != nil {
		if n := closureVarName(par, fn); n != "" {
			return n
		}
	}
	return shortFuncName(fn)
}

// topName names the function an obligation belongs to: closures verified on their own go by the variable they are
// assigned to ("(*serverConn).handleStreams.markClosed"), like their contracts.
func (eng *Engine) topName(fn *ssa.Function) string {
	if par := fn.Parent(); par != nil {
		if n := closureVarName(par, fn); n != "" {
			return shortFuncName(par) + "." + n
		}
	}
	return shortFuncName(fn)
}
