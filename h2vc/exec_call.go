package main

import (
	"fmt"
	"go/types"
	"sort"
	"strings"

	"golang.org/x/tools/go/ssa"
)

const maxInlineDepth = 6
const maxInlineInstrs = 60

func (fx *FuncExec) execCall(fn *ssa.Function, st *State, reach *Term, res ssa.Value, cc *ssa.CallCommon, src string) *Term {
	var args []Value
	var fv Value
	if d, ok := fx.curDefer[cc]; ok {
		args, fv = d.args, d.fn
	} else {
		for _, a := range cc.Args {
			args = append(args, fx.valueOf(st, a))
		}
		if !cc.IsInvoke() {
			fv = fx.valueOf(st, cc.Value)
		}
	}
	setRes := func(v Value) {
		if res != nil {
			st.vals[res] = v
		}
	}
	var resType types.Type
	if res != nil {
		resType = res.Type()
	} else {
		resType = cc.Signature().Results()
	}
	// anchors ret:<callee>#k are evaluated in the state right after the call, with ret0.. bound to its results
	retAnchors := func(reach *Term, name string, ord int, all []Value, v Value) *Term {
		ac := fx.anchorContract(fn)
		if ac == nil {
			return reach
		}
		rargs := append([]Value{}, all...)
		extra := map[string]Value{}
		if tv, ok := v.(VTuple); ok {
			for i, x := range tv.vals {
				extra[fmt.Sprintf("ret%d", i)] = x
			}
		} else if v != nil {
			extra["ret0"] = v
		}
		fx.anchorExtra = extra
		reach = fx.runAnchors(fn, ac, st, reach, fmt.Sprintf("ret:%s#%d", name, ord), rargs, src)
		fx.anchorExtra = nil
		return reach
	}
	if cc.IsInvoke() {
		recv := fx.valueOf(st, cc.Value)
		r, v := fx.invoke(fn, st, reach, recv, cc.Method, args, resType, src)
		if recvT := cc.Method.Type().(*types.Signature).Recv(); recvT != nil {
			name := shortType(recvT.Type()) + "." + cc.Method.Name()
			r = retAnchors(r, name, fx.invokeOrdinal(fn, cc), append([]Value{recv}, args...), v)
		}
		setRes(v)
		return r
	}
	switch f := fv.(type) {
	case VBuiltin:
		// delete on a map does nothing in the model, but what is deleted can be pinned down: anchors call:delete#k see
		// the map as arg0 and the key as arg1
		if f.name == "delete" {
			if ac := fx.anchorContract(fn); ac != nil {
				nm, ord := fx.callSiteName(fn, cc, nil)
				reach = fx.runAnchors(fn, ac, st, reach, fmt.Sprintf("call:%s#%d", nm, ord), append([]Value{}, args...), src)
			}
		}
		r, v := fx.builtin(st, reach, f.name, args, cc, resType, src)
		setRes(v)
		return r
	case VFunc:
		all := append(append([]Value{}, args...), []Value{}...)
		if ac := fx.anchorContract(fn); ac != nil {
			nm, ord := fx.callSiteName(fn, cc, f.fn)
			reach = fx.runAnchors(fn, ac, st, reach, fmt.Sprintf("call:%s#%d", nm, ord), all, src)
		}
		r, v := fx.callFunc(st, reach, f.fn, f.bind, all, resType, src)
		if fx.anchorContract(fn) != nil {
			nm, ord := fx.callSiteName(fn, cc, f.fn)
			r = retAnchors(r, nm, ord, all, v)
		}
		setRes(v)
		return r
	}
	// range-over-func: an iterator of unknown code called with the synthetic yield closure that holds the loop body.
	// It may run the body any number of times and do nothing else to this package's state.
	if len(args) == 1 {
		if yf, ok := args[0].(VFunc); ok && yf.fn != nil && yf.fn.Synthetic == "range-over-func yield" {
			r := fx.rangeFunc(fn, st, reach, yf, src)
			setRes(fx.freshValueR("rangefunc", resType, st, r))
			return r
		}
	}
	fx.note("call through a function value of unknown identity: everything reachable is havocked")
	fx.havocAll(st, reach)
	setRes(fx.freshValueR("dyn", resType, st, reach))
	return reach
}

// callFunc dispatches a call to a statically known function.
func (fx *FuncExec) callFunc(st *State, reach *Term, callee *ssa.Function, bind []Value, args []Value, resType types.Type, src string) (*Term, Value) {
	eng := fx.eng
	name := fullFuncName(callee)
	if con := eng.contractFor(callee); con != nil && !con.Inline {
		return fx.applyContract(st, reach, callee, con, args, resType, src)
	}
	if con := eng.cs.Externs[name]; con != nil {
		return fx.applyContract(st, reach, callee, con, args, resType, src)
	}
	if r, v, ok := fx.intrinsic(st, reach, callee, name, args, resType, src); ok {
		return r, v
	}
	if callee.Blocks != nil && eng.inPackage(callee) {
		con := eng.contractFor(callee)
		small := instrCount(callee) <= maxInlineInstrs
		if (small || (con != nil && con.Inline) || callee.Parent() != nil) && fx.depth < maxInlineDepth && !fx.onStack(callee) {
			return fx.inline(st, reach, callee, bind, args, resType, src)
		}
		fx.note("call to " + shortFuncName(callee) + " (no contract, not inlined): all package state is havocked")
		fx.havocAll(st, reach)
		return reach, fx.freshValueR("call."+callee.Name(), resType, st, reach)
	}
	// external
	if eng.isPureExternal(name) {
		return reach, fx.freshValueR("ext."+callee.Name(), resType, st, reach)
	}
	fx.note("external call " + name + ": contents of passed slices are havocked, result is arbitrary")
	fx.havocArgs(st, reach, args)
	return reach, fx.freshValueR("ext."+callee.Name(), resType, st, reach)
}

func (fx *FuncExec) onStack(f *ssa.Function) bool {
	for _, g := range fx.stack {
		if g == f {
			return true
		}
	}
	return false
}

func instrCount(f *ssa.Function) int {
	n := 0
	for _, b := range f.Blocks {
		for _, in := range b.Instrs {
			if _, ok := in.(*ssa.DebugRef); !ok {
				n++
			}
		}
	}
	return n
}

func fullFuncName(f *ssa.Function) string {
	if f.Pkg == nil {
		// methods of instantiated/external types
		if f.Signature.Recv() != nil {
			return "(" + shortType(f.Signature.Recv().Type()) + ")." + f.Name()
		}
		return f.Name()
	}
	p := f.Pkg.Pkg.Path()
	if i := strings.LastIndex(p, "/"); i >= 0 {
		p = p[i+1:]
	}
	if f.Signature.Recv() != nil {
		return "(" + shortType(f.Signature.Recv().Type()) + ")." + f.Name()
	}
	return p + "." + f.Name()
}

func shortType(t types.Type) string {
	return types.TypeString(t, func(p *types.Package) string {
		s := p.Path()
		if i := strings.LastIndex(s, "/"); i >= 0 {
			s = s[i+1:]
		}
		return s
	})
}

// inline executes the callee's body in the caller's state.
func (fx *FuncExec) inline(st *State, reach *Term, callee *ssa.Function, bind []Value, args []Value, resType types.Type, src string) (*Term, Value) {
	saved := map[ssa.Value]Value{}
	restore := func() {
		for k, v := range saved {
			if v == nil {
				delete(st.vals, k)
			} else {
				st.vals[k] = v
			}
		}
	}
	put := func(k ssa.Value, v Value) {
		if old, ok := st.vals[k]; ok {
			saved[k] = old
		} else {
			saved[k] = nil
		}
		st.vals[k] = v
	}
	for i, p := range callee.Params {
		if i < len(args) {
			put(p, args[i])
		}
	}
	for i, fvar := range callee.FreeVars {
		if i < len(bind) {
			put(fvar, bind[i])
		}
	}
	fx.depth++
	savedEntry := fx.entries[callee]
	fx.entries[callee] = st.Clone()
	if ic := fx.eng.contractFor(callee); ic != nil && ic.Inline && len(ic.Anchors) > 0 {
		if fx.inlinedCons == nil {
			fx.inlinedCons = map[*Contract]bool{}
		}
		fx.inlinedCons[ic] = true
	}
	er, exit, results := fx.runBody(callee, st, reach, fx.eng.contractFor(callee))
	if savedEntry != nil {
		fx.entries[callee] = savedEntry
	} else {
		delete(fx.entries, callee)
	}
	fx.depth--
	// copy exit state back into st (caller continues with it)
	*st = *exit
	_ = restore
	var rv Value
	switch len(results) {
	case 0:
		rv = VTuple{nil}
	case 1:
		rv = results[0]
	default:
		rv = VTuple{results}
	}
	return er, rv
}

// havocAll forgets every heap array (package state), keeping locals.
func (fx *FuncExec) havocAll(st *State, reach *Term) {
	ts := fx.ts
	keys := make([]string, 0, len(fx.eng.heapSorts))
	for k := range fx.eng.heapSorts {
		keys = append(keys, k)
	}
	sort.Strings(keys)
	for _, k := range keys {
		if strings.HasPrefix(k, "global:") && fx.eng.immutableGlobalKey(k) {
			continue
		}
		if k == allocKey {
			old := fx.heapGet(st, allocKey, SInt)
			nw := ts.Fresh("alloc.h", SInt)
			fx.addFact(reach, ts.Le(old, nw))
			fx.heapSet(st, allocKey, nw)
			continue
		}
		fx.heapSet(st, k, ts.Fresh("hv."+k, fx.eng.heapSorts[k]))
	}
}

// havocArgs forgets the contents of every slice passed to an external call.
func (fx *FuncExec) havocArgs(st *State, reach *Term, args []Value) {
	ts := fx.ts
	for _, a := range args {
		if s, ok := a.(VSlice); ok && intRepresentable(s.elem) {
			hk := elemHeapKey(s.elem)
			h := fx.heapGet(st, hk, SArr2)
			fx.heapSet(st, hk, ts.Store(h, s.arr, ts.Fresh("extw", SArr)))
		}
	}
}

// ---------- interface method calls ----------

func (fx *FuncExec) invoke(fn *ssa.Function, st *State, reach *Term, recv Value, m *types.Func, args []Value, resType types.Type, src string) (*Term, Value) {
	ts := fx.ts
	iv, ok := recv.(VIface)
	if !ok {
		fx.unsupported(fmt.Sprintf("invoke on %T", recv))
		return reach, fx.freshValueR("inv", resType, st, reach)
	}
	reach = fx.safe(reach, "nil", src, ts.Ne(iv.tag, ts.Int(0)))
	if (m.Name() == "Error" || m.Name() == "String") && len(args) == 0 {
		// text for log lines and debug data: contents are not modelled
		return reach, fx.freshValueR("text", resType, st, reach)
	}
	impls := fx.eng.implementers(m)
	if len(impls) == 0 {
		// trusted stub for a method of an external interface, e.g. "io.Reader.Read"
		if recvT := m.Type().(*types.Signature).Recv(); recvT != nil {
			key := shortType(recvT.Type()) + "." + m.Name()
			if con := fx.eng.cs.Externs[key]; con != nil {
				sig := m.Type().(*types.Signature)
				params := map[string]Value{}
				for i := 0; i < sig.Params().Len() && i < len(args); i++ {
					params[sig.Params().At(i).Name()] = args[i]
				}
				return fx.applyContractSig(st, reach, con, sig, params, resType, src)
			}
		}
		fx.note("interface call " + m.FullName() + " with no implementer in the package: passed slices havocked, result arbitrary")
		fx.havocArgs(st, reach, args)
		return reach, fx.freshValueR("inv."+m.Name(), resType, st, reach)
	}
	var conds []*Term
	var sts []*State
	var vals []Value
	var reaches []*Term
	var known []*Term
	for _, im := range impls {
		c := ts.Eq(iv.tag, ts.Int(int64(im.id)))
		known = append(known, c)
		br := ts.And(reach, c)
		if br.isFalse() {
			continue
		}
		s2 := st.Clone()
		rv := fx.unbox(s2, br, iv, im.typ)
		r2, v2 := fx.callFunc(s2, br, im.fn, nil, append([]Value{rv}, args...), resType, src)
		conds = append(conds, c)
		sts = append(sts, s2)
		vals = append(vals, v2)
		reaches = append(reaches, r2)
	}
	// dynamic types outside the package
	other := ts.Not(ts.Or(known...))
	if m.Pkg() == nil || !fx.eng.sealedInterface(m) {
		s2 := st.Clone()
		br := ts.And(reach, other)
		fx.havocArgs(s2, br, args)
		conds = append(conds, other)
		sts = append(sts, s2)
		vals = append(vals, fx.freshValueR("inv."+m.Name(), resType, s2, br))
		reaches = append(reaches, br)
		fx.note("interface call " + m.Name() + ": dynamic types outside the package give an arbitrary result")
	} else {
		// sealed: every value of this interface held by package state has a package type (trusted typing lemma)
		fx.addFact(reach, ts.Or(known...))
	}
	merged := fx.mergeStates(conds, sts)
	*st = *merged
	return ts.Or(reaches...), fx.mergeValues(conds, vals, resType)
}

// ---------- builtins ----------

func (fx *FuncExec) builtin(st *State, reach *Term, name string, args []Value, cc *ssa.CallCommon, resType types.Type, src string) (*Term, Value) {
	ts := fx.ts
	switch name {
	case "len":
		switch x := args[0].(type) {
		case VSlice:
			return reach, VInt{x.len}
		case VStr:
			return reach, VInt{fx.strLen(x.id)}
		case VArr:
			return reach, VInt{ts.Int(x.n)}
		case VPtr:
			if at, ok := x.typ.Underlying().(*types.Array); ok {
				return reach, VInt{ts.Int(at.Len())}
			}
		}
		if at, ok := cc.Args[0].Type().Underlying().(*types.Array); ok {
			return reach, VInt{ts.Int(at.Len())}
		}
		v := fx.freshValueR("len", types.Typ[types.Int], st, reach).(VInt)
		fx.addFact(reach, ts.Le(ts.Int(0), v.t))
		return reach, v
	case "cap":
		if x, ok := args[0].(VSlice); ok {
			return reach, VInt{x.cap}
		}
		v := fx.freshValueR("cap", types.Typ[types.Int], st, reach).(VInt)
		fx.addFact(reach, ts.Le(ts.Int(0), v.t))
		return reach, v
	case "append":
		return fx.doAppend(st, reach, args, src)
	case "copy":
		return fx.doCopy(st, reach, args, src)
	case "min", "max":
		r := args[0].(VInt).t
		for _, a := range args[1:] {
			y := a.(VInt).t
			if name == "min" {
				r = ts.Ite(ts.Le(r, y), r, y)
			} else {
				r = ts.Ite(ts.Ge(r, y), r, y)
			}
		}
		return reach, VInt{r}
	case "clear":
		if s, ok := args[0].(VSlice); ok && intRepresentable(s.elem) {
			hk := elemHeapKey(s.elem)
			h := fx.heapGet(st, hk, SArr2)
			old := ts.Select(h, s.arr)
			nw := ts.Fresh("clr", SArr)
			j := ts.Bound("j", SInt)
			in := ts.And(ts.Le(s.off, j), ts.Lt(j, ts.Add(s.off, s.len)))
			fx.addFact(reach, ts.Forall([]*Term{j}, ts.Eq(ts.Select(nw, j), ts.Ite(in, ts.Int(0), ts.Select(old, j))), ts.Select(nw, j)))
			fx.heapSet(st, hk, ts.Store(h, s.arr, nw))
			return reach, VTuple{nil}
		}
		fx.note("builtin clear on a map or untracked slice is a no-op in the model")
		return reach, VTuple{nil}
	case "close":
		// closing a channel has no effect on the modelled state, but it is counted: called(close.<Type.field>) says how
		// often the channel in that field has been closed so far
		fx.note("builtin close only counts (channels are not modelled)")
		if len(args) == 1 {
			if cv, ok := args[0].(VOpaque); ok {
				if key := fx.chanKey[cv.t.id]; key != "" {
					gk := "calls:" + normFuncName("close."+key)
					cnt := ts.Int(0)
					if v, ok := st.ghost[gk].(VInt); ok {
						cnt = v.t
					}
					st.ghost[gk] = VInt{ts.Add(cnt, ts.Int(1))}
					st.wheap["ghost:"+gk] = true
				}
			}
		}
		return reach, VTuple{nil}
	case "delete", "print", "println":
		fx.note("builtin " + name + " is a no-op in the model")
		return reach, VTuple{nil}
	case "recover":
		return reach, VIface{ts.Int(0), ts.Int(0)}
	case "ssa:wrapnilchk":
		return fx.nilCheck(reach, args[0], src), args[0]
	case "ssa:deferstack":
		return reach, fx.zeroValue(resType)
	}
	fx.unsupported("builtin " + name)
	return reach, fx.freshValueR("b."+name, resType, st, reach)
}

// constLen reports a small constant length.
func constLen(t *Term) (int, bool) {
	if t.isInt() && t.ival.IsInt64() && t.ival.Int64() >= 0 && t.ival.Int64() <= 16 {
		return int(t.ival.Int64()), true
	}
	return 0, false
}

func (fx *FuncExec) doAppend(st *State, reach *Term, args []Value, src string) (*Term, Value) {
	ts := fx.ts
	s, ok := args[0].(VSlice)
	if !ok {
		fx.unsupported(fmt.Sprintf("append to %T", args[0]))
		return reach, args[0]
	}
	var tl *Term   // number of appended elements
	var tsl VSlice // source slice (when it is one)
	srcIsSlice := false
	switch t := args[1].(type) {
	case VSlice:
		tl, tsl, srcIsSlice = t.len, t, true
	case VStr:
		tl = fx.strLen(t.id)
	default:
		fx.unsupported(fmt.Sprintf("append of %T", args[1]))
		return reach, fx.freshValueR("app", types.NewSlice(s.elem), st, reach)
	}
	newLen := ts.Add(s.len, tl)
	inplace := ts.Le(newLen, s.cap)
	if tl.isInt() && tl.ival.Sign() == 0 {
		return reach, s // append(s) with nothing: Go returns s itself
	}
	fresh := fx.alloc(st)
	fcap := ts.Fresh("cap", SInt)
	ts.SetRange(fcap, bigZero, big2p40)
	fx.addFact(reach, ts.And(ts.Le(newLen, fcap), ts.Le(fcap, ts.BigInt(big2p40)), ts.Le(ts.Int(0), fcap)))
	fx.addFact(reach, ts.Le(newLen, ts.BigInt(big2p40))) // size assumption: no slice outgrows 2^40 elements
	// A grown slice really starts at offset 0 of its new array. Offsets are not observable by the
	// program (only indices relative to the slice are, and the new array is shared with nothing), so
	// the model keeps the old offset: the new array is a copy of the old one at the same indices.
	// This keeps every index term free of case splits.
	res := mkSlice(ts.Ite(inplace, s.arr, fresh), s.off, newLen, ts.Ite(inplace, s.cap, fcap), s.elem)
	if !intRepresentable(s.elem) {
		fx.note("append on slices of " + typeKey(s.elem) + ": contents not tracked")
		return reach, res
	}
	hk := elemHeapKey(s.elem)
	h := fx.heapGet(st, hk, SArr2)
	oldS := ts.Select(h, s.arr)
	// The resulting backing array is one new array constant N defined pointwise by a single axiom:
	//   N[j] = old[j]                      for j in the live window [off, off+len)
	//   N[j] = appended element            for j in [off+len, off+newLen)
	//   N[j] = old[j] if in place, else 0  elsewhere
	// No case split on in-place/fresh is needed to read the window, which is what keeps chains of
	// appends cheap for the solvers.
	start := ts.Add(res.off, s.len)
	newArr := ts.Fresh("apparr", SArr)
	j := ts.Bound("j", SInt)
	inOld := ts.And(ts.Le(s.off, j), ts.Lt(j, start))
	outside := ts.Ite(inplace, ts.Select(oldS, j), ts.Int(0))
	var body *Term
	if n, ok := constLen(tl); ok && srcIsSlice {
		oldT := ts.Select(h, tsl.arr)
		body = outside
		for k := n - 1; k >= 0; k-- {
			body = ts.Ite(ts.Eq(j, ts.Add(start, ts.Int(int64(k)))), ts.Select(oldT, ts.Add(tsl.off, ts.Int(int64(k)))), body)
		}
		// ground instances for the appended positions (no instantiation needed to read them)
		for k := 0; k < n; k++ {
			fx.addFact(reach, ts.Eq(ts.Select(newArr, ts.Add(start, ts.Int(int64(k)))), ts.Select(oldT, ts.Add(tsl.off, ts.Int(int64(k))))))
		}
	} else if srcIsSlice {
		oldT := ts.Select(h, tsl.arr)
		inNew := ts.And(ts.Le(start, j), ts.Lt(j, ts.Add(start, tl)))
		body = ts.Ite(inNew, ts.Select(oldT, ts.Add(ts.Sub(j, start), tsl.off)), outside)
		// second form keyed on reads of the source
		m := ts.Bound("m", SInt)
		fx.addFact(reach, ts.Forall([]*Term{m},
			ts.Implies(ts.And(ts.Le(tsl.off, m), ts.Lt(m, ts.Add(tsl.off, tl))),
				ts.Eq(ts.Select(newArr, ts.Add(ts.Sub(m, tsl.off), start)), ts.Select(oldT, m))), ts.Select(oldT, m)))
	} else {
		fx.note("append of a string: appended bytes are arbitrary")
		inNew := ts.And(ts.Le(start, j), ts.Lt(j, ts.Add(start, tl)))
		unk := ts.Fresh("strbytes", SArr)
		body = ts.Ite(inNew, ts.Mod(ts.Select(unk, j), ts.Int(256)), outside)
	}
	body = ts.Ite(inOld, ts.Select(oldS, j), body)
	fx.addFact(reach, ts.Forall([]*Term{j}, ts.Eq(ts.Select(newArr, j), body), ts.Select(newArr, j)))
	fx.heapSet(st, hk, ts.Store(h, res.arr, newArr))
	fx.recordAlloc(ts.And(reach, ts.Not(inplace)), newLen, src)
	return reach, res
}

func (fx *FuncExec) doCopy(st *State, reach *Term, args []Value, src string) (*Term, Value) {
	ts := fx.ts
	d, ok := args[0].(VSlice)
	if !ok {
		fx.unsupported(fmt.Sprintf("copy into %T", args[0]))
		return reach, fx.freshValueR("copy", types.Typ[types.Int], st, reach)
	}
	var sl *Term
	var s VSlice
	isSlice := false
	switch t := args[1].(type) {
	case VSlice:
		sl, s, isSlice = t.len, t, true
	case VStr:
		sl = fx.strLen(t.id)
	default:
		fx.unsupported(fmt.Sprintf("copy from %T", args[1]))
		return reach, fx.freshValueR("copy", types.Typ[types.Int], st, reach)
	}
	n := ts.Ite(ts.Le(d.len, sl), d.len, sl)
	if !intRepresentable(d.elem) {
		fx.note("copy on slices of " + typeKey(d.elem) + ": contents not tracked")
		return reach, VInt{n}
	}
	hk := elemHeapKey(d.elem)
	h := fx.heapGet(st, hk, SArr2)
	oldD := ts.Select(h, d.arr)
	var newArr *Term
	if k, ok := constLen(n); ok && isSlice {
		oldS := ts.Select(h, s.arr)
		newArr = oldD
		for i := 0; i < k; i++ {
			newArr = ts.Store(newArr, ts.Add(d.off, ts.Int(int64(i))), ts.Select(oldS, ts.Add(s.off, ts.Int(int64(i)))))
		}
	} else {
		newArr = ts.Fresh("cpyarr", SArr)
		j := ts.Bound("j", SInt)
		fx.addFact(reach, ts.Forall([]*Term{j},
			ts.Implies(ts.Or(ts.Lt(j, d.off), ts.Le(ts.Add(d.off, n), j)), ts.Eq(ts.Select(newArr, j), ts.Select(oldD, j))),
			ts.Select(newArr, j)))
		if isSlice {
			oldS := ts.Select(h, s.arr)
			k := ts.Bound("k", SInt)
			fx.addFact(reach, ts.QuantIdx(true, k, ts.And(ts.Le(ts.Int(0), k), ts.Lt(k, n)),
				ts.Eq(ts.Select(newArr, ts.Add(d.off, k)), ts.Select(oldS, ts.Add(s.off, k)))))
		}
	}
	fx.heapSet(st, hk, ts.Store(h, d.arr, newArr))
	return reach, VInt{n}
}

// runAnchors evaluates the contract's anchored clauses attached to this call
// (assert@call:<callee>#<k>, ghost@call:<callee>#<k>) in the state just before it.
// anchorContract is the contract whose anchored clauses apply to calls made by fn: the contract under verification
// for the function itself, and the (inline) contract of a closure or helper that is being inlined into it.
func (fx *FuncExec) anchorContract(fn *ssa.Function) *Contract {
	if fn == fx.fn {
		if len(fx.stack) == 1 && fx.con != nil && len(fx.con.Anchors) > 0 {
			return fx.con
		}
		return nil
	}
	if c := fx.eng.contractFor(fn); c != nil && c.Inline && len(c.Anchors) > 0 {
		return c
	}
	return nil
}

// callSiteName names a call for anchors: the callee's name for static calls, the local variable's name for a
// call through a closure variable ("markClosed"), and its ordinal among the calls of the same name in fn.
func (fx *FuncExec) callSiteName(fn *ssa.Function, cc *ssa.CallCommon, callee *ssa.Function) (string, int) {
	key := func(c *ssa.CallCommon) string {
		if sc := c.StaticCallee(); sc != nil {
			return shortFuncName(sc)
		}
		if bi, ok := c.Value.(*ssa.Builtin); ok {
			return bi.Name()
		}
		if u, ok := c.Value.(*ssa.UnOp); ok {
			switch x := u.X.(type) {
			case *ssa.Alloc:
				return x.Comment
			case *ssa.FreeVar:
				return x.Name()
			}
		}
		return ""
	}
	want := key(cc)
	if want == "" {
		if callee == nil {
			return "", 0
		}
		return shortFuncName(callee), 0
	}
	type site struct {
		pos int
		cc  *ssa.CallCommon
	}
	var sites []site
	for _, b := range fn.Blocks {
		for _, in := range b.Instrs {
			var c *ssa.CallCommon
			switch x := in.(type) {
			case *ssa.Call:
				c = &x.Call
			case *ssa.Defer:
				c = &x.Call
			case *ssa.Go:
				c = &x.Call
			}
			if c != nil && key(c) == want {
				sites = append(sites, site{int(in.Pos()), c})
			}
		}
	}
	sort.Slice(sites, func(i, j int) bool { return sites[i].pos < sites[j].pos })
	for i, s := range sites {
		if s.cc == cc {
			return want, i + 1
		}
	}
	return want, 0
}

func (fx *FuncExec) runAnchors(fn *ssa.Function, ac *Contract, st *State, reach *Term, want string, args []Value, src string) *Term {
	for _, a := range ac.Anchors {
		if strings.HasSuffix(a.Anchor, "#*") {
			// every call of that function, each site giving an obligation of its own (label#ordinal)
			i := strings.LastIndex(want, "#")
			if i < 0 || normFuncName(strings.TrimSuffix(a.Anchor, "*")) != normFuncName(want[:i+1]) {
				continue
			}
			a.Label = a.Label + want[i:]
			a.Clause.Label = a.Label
		} else if normFuncName(a.Anchor) != normFuncName(want) {
			continue
		}
		fx.anchorHit[ac.Func+"|"+a.Anchor+"/"+strings.SplitN(a.Label, "#", 2)[0]] = true
		env := &cenv{fx: fx, fn: fn, st: st, old: fx.entryFor(fn), con: ac, binds: map[string]Value{}, body: true, reach: reach}

		for i, v := range args {
			env.binds[fmt.Sprintf("arg%d", i)] = v // the call's arguments (arg0 is the receiver of a method)
		}
		for k, v := range fx.anchorExtra {
			env.binds[k] = v
		}
		switch a.Kind {
		case "assert":
			t, err := fx.evalClause(a.Clause, env)
			if err != nil {
				fx.addObl("shape", "assert:"+a.Label, err.Error(), reach, fx.ts.False())
				continue
			}
			fx.addObl("assert", a.Label, src+": "+a.Expr, reach, t)
			reach = fx.ts.And(reach, t)
		case "assume":
			t, err := fx.evalClause(a.Clause, env)
			if err == nil {
				fx.addFact(reach, t)
			}
		case "ghost":
			func() {
				defer func() {
					if r := recover(); r != nil {
						if ce, ok := r.(cerr); ok {
							fx.addObl("shape", "ghost:"+a.Label, string(ce), reach, fx.ts.False())
							return
						}
						panic(r)
					}
				}()
				env.params = fx.paramsFor(fn)
				ex, perr := parseCached(a.Expr)
				if perr != nil {
					cfail("%v", perr)
				}
				st.ghost["g:"+a.Label] = env.eval(ex)
				st.wheap["ghost:g:"+a.Label] = true
			}()
		}
	}
	return reach
}

// callOrdinal numbers the calls to callee inside fn in source order, from 1.
func (fx *FuncExec) callOrdinal(fn *ssa.Function, cc *ssa.CallCommon, callee *ssa.Function) int {
	type site struct {
		pos int
		cc  *ssa.CallCommon
	}
	var sites []site
	for _, b := range fn.Blocks {
		for _, in := range b.Instrs {
			var c *ssa.CallCommon
			switch x := in.(type) {
			case *ssa.Call:
				c = &x.Call
			case *ssa.Defer:
				c = &x.Call
			case *ssa.Go:
				c = &x.Call
			}
			if c != nil && c.StaticCallee() == callee {
				sites = append(sites, site{int(in.Pos()), c})
			}
		}
	}
	sort.Slice(sites, func(i, j int) bool { return sites[i].pos < sites[j].pos })
	for i, s := range sites {
		if s.cc == cc {
			return i + 1
		}
	}
	return 0
}

// invokeOrdinal numbers the interface method calls of the same method inside fn in source order, from 1.
func (fx *FuncExec) invokeOrdinal(fn *ssa.Function, cc *ssa.CallCommon) int {
	type site struct {
		pos int
		cc  *ssa.CallCommon
	}
	var sites []site
	for _, b := range fn.Blocks {
		for _, in := range b.Instrs {
			if c, ok := in.(*ssa.Call); ok && c.Call.IsInvoke() && c.Call.Method == cc.Method {
				sites = append(sites, site{int(in.Pos()), &c.Call})
			}
		}
	}
	sort.Slice(sites, func(i, j int) bool { return sites[i].pos < sites[j].pos })
	for i, s := range sites {
		if s.cc == cc {
			return i + 1
		}
	}
	return 0
}

// rangeFunc models `for ... := range seq { body }` where seq comes from code outside the package: the body (the yield
// closure) runs zero or more times with arbitrary elements. Like a loop without invariants: what the body writes is
// found by running it symbolically until the set is stable, those locations are forgotten, and the body is executed
// once more from that state to generate its own obligations. The state after the loop is the forgetful one.
func (fx *FuncExec) rangeFunc(fn *ssa.Function, st *State, reach *Term, yf VFunc, src string) *Term {
	ts := fx.ts
	fx.note("range over an iterator function: its body runs any number of times with arbitrary elements")
	sig := yf.fn.Signature
	mkArgs := func(s *State, r *Term) []Value {
		var as []Value
		for i := 0; i < sig.Params().Len(); i++ {
			as = append(as, fx.freshValueR("yield", sig.Params().At(i).Type(), s, r))
		}
		return as
	}
	wc := map[*ssa.Alloc]bool{}
	wh := map[string]bool{}
	havoc := func(s *State, r *Term, hint string) {
		for _, a := range sortedAllocs(wc) {
			if _, ok := s.cells[a]; ok {
				s.cells[a] = fx.freshValue(hint+"."+a.Comment, a.Type().(*types.Pointer).Elem(), s)
			}
		}
		for _, k := range sortedStrings(wh) {
			if strings.HasPrefix(k, "ghost:") {
				continue
			}
			if k == allocKey {
				old := fx.heapGet(s, allocKey, SInt)
				nw := ts.Fresh("alloc."+hint, SInt)
				fx.addFact(r, ts.Le(old, nw))
				fx.heapSet(s, allocKey, nw)
				continue
			}
			if srt, ok := fx.eng.heapSorts[k]; ok {
				fx.heapSet(s, k, ts.Fresh(hint+"."+k, srt))
			}
		}
	}
	for round := 0; round < 5; round++ {
		start := st.Clone()
		start.wcells, start.wheap = map[*ssa.Alloc]bool{}, map[string]bool{}
		havoc(start, reach, "dw")
		start.wcells, start.wheap = map[*ssa.Alloc]bool{}, map[string]bool{}
		fx.discover++
		nfacts, nobls := len(fx.facts), len(fx.obls)
		fx.inline(start, reach, yf.fn, yf.bind, mkArgs(start, reach), sig.Results(), src)
		fx.facts, fx.obls = fx.facts[:nfacts], fx.obls[:nobls]
		fx.discover--
		grew := false
		for a := range start.wcells {
			if !wc[a] {
				wc[a], grew = true, true
			}
		}
		for k := range start.wheap {
			if !wh[k] {
				wh[k], grew = true, true
			}
		}
		if !grew {
			break
		}
	}
	// the `requires` clauses of the yield closure's (inline) contract are the loop invariant: they hold before the
	// loop, are assumed for every run of the body and after the loop, and are checked at the end of the body
	var invs []Clause
	if ic := fx.eng.contractFor(yf.fn); ic != nil && ic.Inline {
		invs = ic.Requires
	}
	evalInv := func(c Clause, s *State, r *Term) (*Term, error) {
		saved := map[ssa.Value]Value{}
		for i, fv := range yf.fn.FreeVars {
			if i < len(yf.bind) {
				if old, ok := s.vals[fv]; ok {
					saved[fv] = old
				}
				s.vals[fv] = yf.bind[i]
			}
		}
		defer func() {
			for _, fv := range yf.fn.FreeVars {
				if old, ok := saved[fv]; ok {
					s.vals[fv] = old
				} else {
					delete(s.vals, fv)
				}
			}
		}()
		return fx.evalClause(c, &cenv{fx: fx, fn: yf.fn, st: s, old: fx.entryFor(fn), binds: map[string]Value{}, body: true, reach: r, params: map[string]Value{}})
	}
	for _, c := range invs {
		if t, err := evalInv(c, st, reach); err != nil {
			fx.addObl("shape", "rangefunc:"+c.Label, err.Error(), reach, ts.False())
		} else {
			fx.addObl("inv-entry", "rangefunc:"+c.Label, c.Expr, reach, t)
		}
	}
	havoc(st, reach, "rf")
	for _, c := range invs {
		if t, err := evalInv(c, st, reach); err == nil {
			fx.addFact(reach, t)
		}
	}
	for a := range wc {
		st.wcells[a] = true
	}
	for k := range wh {
		st.wheap[k] = true
	}
	// the body once, for its obligations, from the forgetful state
	body := st.Clone()
	// the compiler's protocol cell: the body is entered with it at 0 (an iterator calling yield after the loop has
	// ended would panic; iterators of the libraries used do not)
	for i, fv := range yf.fn.FreeVars {
		if strings.HasPrefix(fv.Name(), "jump$") && i < len(yf.bind) {
			if pt, ok := fv.Type().(*types.Pointer); ok {
				fx.store(body, reach, yf.bind[i], VInt{ts.Int(0)}, pt.Elem())
			}
		}
	}
	it := ts.Fresh("rangefunc.iter", SBool)
	br := ts.And(reach, it)
	er, _ := fx.inline(body, br, yf.fn, yf.bind, mkArgs(body, reach), sig.Results(), src)
	for _, c := range invs {
		if t, err := evalInv(c, body, er); err == nil {
			fx.addObl("inv-preserve", "rangefunc:"+c.Label, c.Expr, er, t)
		}
	}
	// the protocol cell is never left at -1 by a completed call of the body (checked), so it is not -1 afterwards
	for i, fv := range yf.fn.FreeVars {
		if strings.HasPrefix(fv.Name(), "jump$") && i < len(yf.bind) {
			if pt, ok := fv.Type().(*types.Pointer); ok {
				if v, ok := fx.load(body, er, yf.bind[i], pt.Elem()).(VInt); ok {
					fx.addObl("inv-preserve", "rangefunc:protocol", "the compiler's jump cell is not left at -1", er, ts.Ne(v.t, ts.Int(-1)))
				}
				if v, ok := fx.load(st, reach, yf.bind[i], pt.Elem()).(VInt); ok {
					fx.addFact(reach, ts.Ne(v.t, ts.Int(-1)))
				}
			}
		}
	}
	return reach
}
