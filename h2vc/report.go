package main

import (
	"os/exec"
	"context"
	"encoding/json"
	"fmt"
	"os"
	"path/filepath"
	"sort"
	"strings"
	"time"
)

type KnownFinding struct {
	Property    string `json:"property"`
	Obligation  string `json:"obligation"`
	Status      string `json:"status"` // open | fixed
	Commit      string `json:"commit,omitempty"`
	Description string `json:"description"`
	Witness     string `json:"witness,omitempty"`
}

type knownFile struct {
	Findings []KnownFinding `json:"findings"`
}

func loadKnown(verif string) []KnownFinding {
	b, err := os.ReadFile(filepath.Join(verif, "known_findings.json"))
	if err != nil {
		return nil
	}
	var k knownFile
	if err := json.Unmarshal(b, &k); err != nil {
		fmt.Fprintln(os.Stderr, "h2vc: known_findings.json:", err)
		return nil
	}
	return k.Findings
}

type expectedFile struct {
	// property -> obligation names that must be generated on every run
	Obligations map[string][]string `json:"obligations"`
}

func loadExpected(verif string) map[string][]string {
	b, err := os.ReadFile(filepath.Join(verif, "expected_obligations.json"))
	if err != nil {
		return nil
	}
	var e expectedFile
	if json.Unmarshal(b, &e) != nil {
		return nil
	}
	return e.Obligations
}

type oblJSON struct {
	Name   string  `json:"name"`
	Kind   string  `json:"kind"`
	Status string  `json:"status"`
	Solver string  `json:"solver"`
	Secs   float64 `json:"seconds"`
	Src    string  `json:"source,omitempty"`
}

func hasProp(ps []string, p string) bool {
	for _, x := range ps {
		if x == p {
			return true
		}
	}
	return false
}

// routedTo reports whether an obligation with this label counts for property prop: by default every obligation of a
// function counts for all the function's properties; a `route` line narrows a clause to some of them.
func routedTo(c *Contract, label, prop string) bool {
	if len(c.Routes) == 0 {
		return true
	}
	for _, tok := range strings.FieldsFunc(label, func(r rune) bool { return r == ':' || r == '@' || r == '#' }) {
		if ps, ok := c.Routes[tok]; ok {
			return hasProp(ps, prop)
		}
	}
	return true
}

func (eng *Engine) checkProperty(prop, tier string) int {
	t0 := time.Now()
	verif := *flagVerif
	var cons []*Contract
	for _, c := range eng.cs.Order {
		if c.Trusted || c.Opts["body"] == "skip" {
			continue
		}
		if prop == "" || hasProp(c.Props, prop) {
			if c.Opts["tier"] == "thorough" && tier != "thorough" {
				continue
			}
			cons = append(cons, c)
		}
	}
	var all []*Obligation
	var execs []*FuncExec
	var setupFailures []string
	for _, c := range cons {
		fn := eng.funcsByName[c.Pkg+"."+c.Func]
		if fn == nil {
			setupFailures = append(setupFailures, fmt.Sprintf("%s/shape:function-missing", c.Func))
			continue
		}
		fx, err := eng.VerifyFunction(fn, c)
		if err != nil {
			setupFailures = append(setupFailures, fmt.Sprintf("%s/shape:contract-error: %v", c.Func, err))
			continue
		}
		execs = append(execs, fx)
		for _, o := range fx.obls {
			if tier != "thorough" && o.fx.con != nil && o.fx.con.Opts["slow"] != "" && strings.Contains(","+o.fx.con.Opts["slow"]+",", ","+o.Label+",") {
				continue
			}
			if prop != "" && !routedTo(c, o.Label, prop) {
				continue
			}
			all = append(all, o)
		}
		for _, u := range fx.unsup {
			setupFailures = append(setupFailures, fmt.Sprintf("%s/shape:unsupported: %s", c.Func, u))
		}
	}
	// C15: the code tables in the source are compared entry by entry with the committed copy of RFC 7541 Appendix B
	if prop == "C15" || prop == "" {
		all = append(all, eng.tableObligations(verif)...)
	}
	// spec files whose functions are only declared in verification conditions: their lemmas are proved from the
	// definitions (script <file>.check), and the decoding tree the real initialiser builds is compared with them
	usedSpec := map[string]bool{}
	for _, fx := range execs {
		for f := range fx.specUsed {
			usedSpec[f] = true
		}
	}
	for _, f := range sortedStrings(usedSpec) {
		chk := strings.TrimSuffix(f, ".smt2") + ".check"
		if _, err := os.Stat(chk); err == nil {
			all = append(all, eng.specLemmaObligation(chk))
			if strings.Contains(f, "huffman_tree") {
				all = append(all, eng.huffmanTreeObligation(verif))
			}
		}
	}
	genSecs := time.Since(t0).Seconds()
	work := eng.workDir()
	var cache *solveCache
	if d := os.Getenv("H2VC_CACHE"); d != "" {
		cache = &solveCache{dir: d}
	}
	known := loadKnown(verif)
	// obligations listed as open findings are expected to fail: give them a few seconds (in case the defect has been
	// repaired) instead of the full time limit and the second pass
	for _, o := range all {
		for i := range known {
			if known[i].Status == "open" && known[i].Obligation == o.Name {
				o.Brief = true
			}
		}
	}
	solveAll(all, work, *flagTimeout, seedFromEnv(), *flagPar, cache)
	xChecked, xConfirmed := 0, 0
	var xDisagreed []*Obligation
	if tier == "thorough" {
		xChecked, xConfirmed, xDisagreed = crossCheck(all, work, 6, seedFromEnv(), *flagPar)
		for _, o := range xDisagreed {
			o.Status = "unknown" // two solvers contradict each other: not counted as discharged
		}
	}

	isKnown := func(name string) *KnownFinding {
		for i := range known {
			k := &known[i]
			if k.Status == "open" && k.Obligation == name && (prop == "" || k.Property == prop) {
				return k
			}
		}
		return nil
	}
	// presence guard
	// (the "@site" suffix that tells the back edges of one loop apart is ignored here: adding or removing a call or a
	// `continue` renumbers the sites without dropping any clause)
	// (likewise the "in:<callee>/" segments that say through which inlined helpers a clause was reached: moving a call from
	// one helper to another keeps the clause)
	baseName := func(n string) string {
		if i := strings.Index(n, "@"); i >= 0 {
			n = n[:i]
		}
		parts := strings.Split(n, "/")
		var keep []string
		for _, p := range parts {
			if !strings.HasPrefix(p, "in:") {
				keep = append(keep, p)
			}
		}
		return strings.Join(keep, "/")
	}
	present := map[string]bool{}
	for _, o := range all {
		present[baseName(o.Name)] = true
	}
	var missing []string
	seenMissing := map[string]bool{}
	if exp := loadExpected(verif); exp != nil && prop != "" {
		for _, n := range exp[prop] {
			if b := baseName(n); !present[b] && !seenMissing[b] {
				seenMissing[b] = true
				missing = append(missing, b)
			}
		}
	}
	id := prop
	if id == "" {
		id = "ALL"
	}
	replayDir := filepath.Join(verif, "replays", id)
	_ = os.MkdirAll(replayDir, 0o755)
	violations := 0
	nObl, nDis, nKnown, nCanary, nCanaryOK := 0, 0, 0, 0, 0
	byBackend := map[string]int{}
	solverSecs := 0.0
	var samples, fillSamples []interface{}
	var oj []oblJSON
	var knownPrinted []string
	for _, o := range all {
		solverSecs += o.Secs
		oj = append(oj, oblJSON{o.Name, o.Kind, o.Status, o.Solver, o.Secs, o.Src})
		if o.ExpectSat {
			nCanary++
			if o.Status == "proved" {
				violations++
				path := filepath.Join(replayDir, sanitize(o.Name)+".json")
				writeReplay(path, o, "VACUOUS: an assertion that must be refutable was proved; the assumptions of this function are contradictory", nil)
				fmt.Printf("VIOLATION property=%s replay=%s no-failing-input-found\n", id, path)
			} else {
				nCanaryOK++
			}
			continue
		}
		nObl++
		if o.Status == "proved" {
			nDis++
			byBackend[strings.TrimSuffix(o.Solver, " (cached)")]++
			// samples: contract clauses first (what the property is made of), safety obligations only to fill up
			if (o.Kind == "post" || o.Kind == "assert" || o.Kind == "inv-preserve") && len(samples) < 8 {
				samples = append(samples, map[string]string{"obligation": o.Name, "goal": truncate(o.Src, 300), "solver": o.Solver})
			} else if len(fillSamples) < 3 {
				fillSamples = append(fillSamples, map[string]string{"obligation": o.Name, "goal": truncate(o.Src, 300), "solver": o.Solver})
			}
			continue
		}
		if k := isKnown(o.Name); k != nil {
			nKnown++
			knownPrinted = append(knownPrinted, fmt.Sprintf("KNOWN-FINDING: property=%s %s %s", k.Property, k.Obligation, k.Description))
			continue
		}
		violations++
		path := filepath.Join(replayDir, sanitize(o.Name)+".json")
		confirmed := false
		var rp *replayResult
		if o.Status == "refuted" {
			rp = eng.replay(o, work)
			confirmed = rp != nil && rp.Confirmed
		}
		reason := "refuted by " + o.Solver
		if o.Status == "unknown" {
			reason = "undecided: no solver discharged this obligation within the time limit"
		}
		writeReplay(path, o, reason, rp)
		if confirmed {
			fmt.Printf("VIOLATION property=%s replay=%s\n", id, path)
		} else {
			fmt.Printf("VIOLATION property=%s replay=%s no-failing-input-found\n", id, path)
		}
		fmt.Printf("  failed obligation: %s [%s] %s\n", o.Name, o.Status, truncate(o.Src, 160))
	}
	for _, m := range missing {
		violations++
		path := filepath.Join(replayDir, sanitize(m)+".missing.json")
		_ = os.WriteFile(path, []byte(fmt.Sprintf("{\"obligation\": %q, \"reason\": \"expected obligation was not generated (function, clause or anchor no longer resolves)\"}\n", m)), 0o644)
		fmt.Printf("VIOLATION property=%s replay=%s no-failing-input-found\n", id, path)
		fmt.Printf("  missing obligation: %s\n", m)
	}
	for _, f := range setupFailures {
		violations++
		path := filepath.Join(replayDir, sanitize(f)+".json")
		_ = os.WriteFile(path, []byte(fmt.Sprintf("{\"obligation\": %q, \"reason\": \"contract could not be applied to the current source\"}\n", f)), 0o644)
		fmt.Printf("VIOLATION property=%s replay=%s no-failing-input-found\n", id, path)
		fmt.Printf("  %s\n", f)
	}
	sort.Strings(knownPrinted)
	for i, l := range knownPrinted {
		if i == 0 || knownPrinted[i-1] != l {
			fmt.Println(l)
		}
	}
	if nObl == 0 {
		violations++
		fmt.Printf("VIOLATION property=%s replay=%s no-failing-input-found\n", id, filepath.Join(replayDir, "no-obligations.json"))
		_ = os.WriteFile(filepath.Join(replayDir, "no-obligations.json"), []byte("{\"reason\": \"no obligation was generated for this property\"}\n"), 0o644)
	}
	if len(samples) < 3 {
		samples = append(samples, fillSamples...)
	}
	// evidence
	var fns []string
	notes := map[string]bool{}
	trustedSet := map[string]bool{}
	for _, fx := range execs {
		fns = append(fns, shortFuncName(fx.fn))
		for n := range fx.notes {
			notes[n] = true
		}
		for c := range fx.callCount {
			if ec, ok := eng.cs.Externs[c]; ok && ec.Trusted {
				trustedSet["trusted stub contract: "+c] = true
			}
			if ic := eng.cs.ByFunc["http2."+c]; ic != nil && ic.Trusted {
				trustedSet["trusted in-package contract: "+c] = true
			}
			if ic := eng.cs.ByFunc["http2."+c]; ic != nil && ic.Opts["body"] == "skip" {
				trustedSet["ASSUMED contract (body not verified yet): "+c] = true
			}
		}
	}
	for _, fx := range execs {
		if fx.con != nil {
			if fx.con.Opts["noovf"] == "true" {
				trustedSet["signed overflow NOT checked (opt noovf): "+shortFuncName(fx.fn)] = true
			}
			if fx.con.Opts["noframe"] == "true" {
				trustedSet["modifies clause NOT checked against the body (opt noframe): "+shortFuncName(fx.fn)] = true
			}
		}
	}
	for t, cl := range eng.cs.HeapInvs {
		for _, c := range cl {
			trustedSet["declared heap invariant (assumed for every object, established at init): "+t+" "+c.Label] = true
		}
	}
	for t, cl := range eng.cs.GlobalInvs {
		for _, c := range cl {
			trustedSet["declared invariant of init-only package variable: "+t+" "+c.Label] = true
		}
	}
	for t, cl := range eng.cs.Types {
		for _, c := range cl {
			trustedSet["declared type invariant assumed at map lookups: "+t+" "+c.Label] = true
		}
	}
	for t := range eng.cs.Chans {
		trustedSet["declared channel invariant assumed at receives (checked at sends under contract): "+t] = true
	}
	for _, t := range eng.cs.Sealed {
		trustedSet["sealed interface (only this package's types implement it): "+t] = true
	}
	sort.Strings(fns)
	var unm []string
	for n := range notes {
		unm = append(unm, n)
	}
	sort.Strings(unm)
	tb := []string{
		"h2vc VC generator (SSA -> SMT translation, contract expression compiler)",
		"go/ssa (x/tools v0.29.0) and the Go compiler/runtime",
		"SMT solvers z3 4.8.12, z3 5.1.0, cvc5 1.0 (unsat answers, raced, not cross-checked)",
		"specification library /verif/spec (transcription of RFC 7540 / RFC 7541)",
	}
	for t := range trustedSet {
		tb = append(tb, t)
	}
	sort.Strings(tb[4:])
	ev := map[string]interface{}{
		"property_id": id,
		"tier":        tier,
		"seed":        seedFromEnv(),
		"level":       "proof",
		"coverage": map[string]interface{}{
			// obligations claimed by this check: those listed as open findings are reported, not claimed
			"obligations":               nObl - nKnown,
			"obligations_generated":     nObl,
			"discharged":                nDis,
			"known_finding_obligations": nKnown,
			"checker_cmd":               fmt.Sprintf("/verif/bin/h2vc -tier %s check %s", tier, id),
			"trusted_base":              tb,
			"functions_under_contract":  fns,
			"by_backend":                byBackend,
			"solver_seconds":            round2(solverSecs),
			"vc_generation_seconds":     round2(genSecs),
			"canaries":                  nCanary,
			"canaries_refuted_or_undecided": nCanaryOK,
			"samples":                   samples,
			"obligation_list":           oj,
			"unmodelled":                unm,
			"bounded":                   boundedList(execs),
			"crosscheck": map[string]interface{}{
				"explanation":  "thorough tier only: every solver-discharged obligation is re-solved by the other solvers of the portfolio (6 s each, in parallel); confirmed = independent unsat, the rest stayed undecided there; a sat answer would be reported as a violation",
				"resolved":     xChecked,
				"confirmed":    xConfirmed,
				"disagreement": len(xDisagreed),
			},
			"missing_expected":          missing,
		},
		"assumptions": standingAssumptions(),
		"wall_s":      round2(time.Since(t0).Seconds() + eng.loadSecs),
		"violations":  violations,
	}
	evDir := filepath.Join(verif, "evidence")
	if d := os.Getenv("H2VC_EVIDENCE_DIR"); d != "" {
		evDir = d // runs against deliberately changed sources keep their evidence apart
	}
	_ = os.MkdirAll(evDir, 0o755)
	b, _ := json.MarshalIndent(ev, "", " ")
	if prop != "" {
		_ = os.WriteFile(filepath.Join(evDir, id+".json"), append(b, '\n'), 0o644)
	}
	fmt.Printf("h2vc: property=%s tier=%s functions=%d obligations=%d discharged=%d known=%d canaries=%d/%d violations=%d wall=%.1fs\n",
		id, tier, len(execs), nObl, nDis, nKnown, nCanaryOK, nCanary, violations, time.Since(t0).Seconds()+eng.loadSecs)
	if *flagVerbose {
		printObls(all, true)
	} else {
		printObls(all, false)
	}
	if violations > 0 {
		return 1
	}
	return 0
}

func round2(f float64) float64 { return float64(int(f*100+0.5)) / 100 }

func truncate(s string, n int) string {
	if len(s) > n {
		return s[:n] + "..."
	}
	return s
}

func standingAssumptions() []string {
	return []string{
		"scheduling and inter-goroutine interference are not modelled: each function is verified as sequential code",
		"slices satisfy 0 <= len <= cap and offset+cap <= 2^40; object references are below the allocation counter",
		"machine arithmetic: unsigned and narrowing operations wrap exactly; signed + - * are mathematical where the generated ovf obligation was discharged",
		"package-level variables never assigned outside init keep their initial value; contents of package-level byte slices are never written",
		"external calls without a stub contract return arbitrary values and may overwrite the contents of slices passed to them, nothing else",
		"sync.Pool.Get returns an object no other owner holds, of the type the pool's New function returns, with arbitrary field contents",
		"termination is proved only where a decreases clause is listed",
		"recover() yields nil: only panic-free executions are modelled (panics are proof obligations in the functions under contract, and assumed away in the code they call)",
		"variables of other packages (io.EOF, io.ErrUnexpectedEOF ...) hold values that are not this package's own error values; exported error variables are not nil",
		"allocation failure, stack exhaustion and cap growth policy of append are not modelled (any capacity >= length)",
	}
}

func writeReplay(path string, o *Obligation, reason string, rp *replayResult) {
	m := map[string]interface{}{
		"obligation": o.Name,
		"kind":       o.Kind,
		"function":   o.Func,
		"clause":     o.Src,
		"status":     o.Status,
		"reason":     reason,
		"solver":     o.Solver,
		"seconds":    o.Secs,
		"solver_output": truncate(o.Output, 4000),
	}
	if rp != nil {
		m["replay"] = rp
	}
	b, _ := json.MarshalIndent(m, "", " ")
	_ = os.WriteFile(path, append(b, '\n'), 0o644)
}

type replayResult struct {
	Confirmed bool              `json:"confirmed"`
	Inputs    map[string]string `json:"inputs,omitempty"`
	Predicted map[string]string `json:"model_outputs,omitempty"`
	Observed  string            `json:"observed,omitempty"`
	TestSrc   string            `json:"test_source,omitempty"`
	Note      string            `json:"note,omitempty"`
}

// tableObligations checks huffmanCodes / huffmanCodeLen (read from the source text on every run) against
// spec/rfc7541_huffman.json: 512 equalities, decided by direct comparison.
func (eng *Engine) tableObligations(verif string) []*Obligation {
	var out []*Obligation
	mk := func(name, src string, ok bool, detail string) {
		o := &Obligation{Name: "tables/" + name, Kind: "post", Func: "huffman tables", Label: name, Src: src, Solver: "direct comparison", Props: []string{"C15"}}
		if ok {
			o.Status = "proved"
		} else {
			o.Status = "refuted"
			o.Output = detail
		}
		out = append(out, o)
	}
	b, err := os.ReadFile(filepath.Join(verif, "spec", "rfc7541_huffman.json"))
	var ref struct {
		Codes []int64 `json:"codes"`
		Lens  []int64 `json:"lens"`
	}
	if err != nil || json.Unmarshal(b, &ref) != nil || len(ref.Codes) != 256 || len(ref.Lens) != 256 {
		mk("rfc-copy", "spec/rfc7541_huffman.json must hold 256 codes and lengths", false, "cannot read the RFC copy")
		return out
	}
	for _, t := range []struct {
		name string
		ref  []int64
	}{{"huffmanCodes", ref.Codes}, {"huffmanCodeLen", ref.Lens}} {
		gi := eng.globals[t.name]
		if gi == nil || gi.kind != "intarray" || len(gi.table) != 256 || eng.mutableGlobals[t.name] {
			mk(t.name, t.name+" is a constant table of 256 entries that is never written", false, "table not found, not constant, or written outside init")
			continue
		}
		bad := ""
		for i := 0; i < 256; i++ {
			if gi.table[i] != t.ref[i] {
				bad = fmt.Sprintf("entry %d is %d, RFC 7541 Appendix B says %d", i, gi.table[i], t.ref[i])
				break
			}
		}
		mk(t.name, "forall s < 256: "+t.name+"[s] equals the RFC 7541 Appendix B value", bad == "", bad)
	}
	return out
}

// specLemmaObligation proves the lemmas of a spec file from its definitions: the script holds the definitions and the
// negated conjunction of the lemmas, so unsat means they all hold.
func (eng *Engine) specLemmaObligation(chk string) *Obligation {
	o := &Obligation{Name: "spec/lemmas:" + strings.TrimSuffix(filepath.Base(chk), ".check"), Kind: "post", Func: "spec library", Label: "lemmas",
		Src: "the lemmas handed to the verification conditions follow from the definitions in " + filepath.Base(strings.TrimSuffix(chk, ".check")+".defs")}
	t0 := time.Now()
	for _, sv := range []string{"z3-new", "z3"} {
		ctx, cancel := context.WithTimeout(context.Background(), 70*time.Second)
		out, _ := exec.CommandContext(ctx, sv, "-T:60", chk).CombinedOutput()
		cancel()
		first := strings.TrimSpace(strings.SplitN(string(out), "\n", 2)[0])
		if first == "unsat" {
			o.Status, o.Solver = "proved", sv
			break
		}
		if first == "sat" {
			o.Status, o.Solver, o.Output = "refuted", sv, string(out)
			break
		}
		o.Output = string(out)
	}
	if o.Status == "" {
		o.Status = "unknown"
	}
	o.Secs = time.Since(t0).Seconds()
	return o
}

// huffmanTreeObligation runs the real package initialiser and walks the decoding tree it builds, comparing every
// entry of every node with the tree defined from the RFC table (spec/huffman_tree.json). The tree is a finite
// constant object, so this settles the declared heap invariant of huffmanNode for the tree that is actually used.
func (eng *Engine) huffmanTreeObligation(verif string) *Obligation {
	o := &Obligation{Name: "tables/huffmanTree", Kind: "post", Func: "huffman tables", Label: "huffmanTree", Solver: "execution of the package initialiser",
		Src: "the tree under rootHuffmanNode equals, node by node and entry by entry, the prefix tree of the RFC 7541 Appendix B code (heapinvariant huffmanNode tree)"}
	t0 := time.Now()
	defer func() { o.Secs = time.Since(t0).Seconds() }()
	dir, err := os.MkdirTemp(eng.workDir(), "tree")
	if err != nil {
		o.Status, o.Output = "unknown", err.Error()
		return o
	}
	defer os.RemoveAll(dir)
	src := `package http2

import (
	"encoding/json"
	"fmt"
	"os"
	"testing"
)

func TestH2VCHuffmanTree(t *testing.T) {
	var ref struct {
		Nodes int
		Kind, Sym, Len, Child [][]int
	}
	b, err := os.ReadFile("` + filepath.Join(verif, "spec", "huffman_tree.json") + `")
	if err != nil || json.Unmarshal(b, &ref) != nil {
		t.Fatalf("H2VC-TREE cannot read the reference tree: %v", err)
	}
	seen := 0
	var walk func(n *huffmanNode, id int) string
	walk = func(n *huffmanNode, id int) string {
		seen++
		if n == nil || len(n.sub) != 256 {
			return fmt.Sprintf("node %d is not an inner node with 256 entries", id)
		}
		for b := 0; b < 256; b++ {
			e := n.sub[b]
			switch ref.Kind[id][b] {
			case 0:
				if e != nil {
					return fmt.Sprintf("node %d entry %d: expected nothing", id, b)
				}
			case 1:
				if e == nil || e.sub != nil || int(e.sym) != ref.Sym[id][b] || int(e.codeLen) != ref.Len[id][b] {
					return fmt.Sprintf("node %d entry %d: expected leaf sym=%d len=%d, have %+v", id, b, ref.Sym[id][b], ref.Len[id][b], e)
				}
			case 2:
				if e == nil || e.sub == nil {
					return fmt.Sprintf("node %d entry %d: expected an inner node", id, b)
				}
				if m := walk(e, ref.Child[id][b]); m != "" {
					return m
				}
			}
		}
		return ""
	}
	if m := walk(rootHuffmanNode, 0); m != "" {
		t.Fatalf("H2VC-TREE mismatch: %s", m)
	}
	if seen != ref.Nodes {
		t.Fatalf("H2VC-TREE mismatch: %d inner nodes, expected %d", seen, ref.Nodes)
	}
	fmt.Println("H2VC-TREE ok", seen)
}
`
	testFile := filepath.Join(dir, "zz_h2vc_tree_test.go")
	_ = os.WriteFile(testFile, []byte(src), 0o644)
	ov := map[string]map[string]string{"Replace": {filepath.Join(eng.repo, "zz_h2vc_tree_test.go"): testFile}}
	ob, _ := json.Marshal(ov)
	ovFile := filepath.Join(dir, "overlay.json")
	_ = os.WriteFile(ovFile, ob, 0o644)
	ctx, cancel := context.WithTimeout(context.Background(), 300*time.Second)
	defer cancel()
	out, _ := exec.CommandContext(ctx, "sh", "-c", fmt.Sprintf("cd %s && go test -overlay %s -vet=off -count=1 -timeout 120s -run '^TestH2VCHuffmanTree$' -v .", eng.repo, ovFile)).CombinedOutput()
	switch {
	case strings.Contains(string(out), "H2VC-TREE ok"):
		o.Status = "proved"
	case strings.Contains(string(out), "H2VC-TREE mismatch"):
		o.Status, o.Output = "refuted", truncate(string(out), 1500)
	default:
		o.Status, o.Output = "unknown", truncate(string(out), 1500)
	}
	return o
}

func boundedList(execs []*FuncExec) []string {
	out := []string{}
	for _, fx := range execs {
		if fx.con == nil {
			continue
		}
		for _, b := range fx.con.Bounded {
			out = append(out, shortFuncName(fx.fn)+"/"+b)
		}
	}
	sort.Strings(out)
	return out
}
