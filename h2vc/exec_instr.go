package main

import (
	"fmt"
	"go/constant"
	"go/token"
	"go/types"
	"math/big"
	"sort"
	"strings"

	"golang.org/x/tools/go/ssa"
)

// isCell: an Alloc that is only ever loaded from / stored to directly.
func (fx *FuncExec) isCell(a *ssa.Alloc) bool {
	if v, ok := fx.eng.cellCache[a]; ok {
		return v
	}
	ok := true
	if a.Heap {
		// naive form marks escaping locals as Heap; they may still be used only directly
	}
	refs := a.Referrers()
	if refs != nil {
		for _, r := range *refs {
			switch u := r.(type) {
			case *ssa.UnOp:
				if u.Op != token.MUL {
					ok = false
				}
			case *ssa.Store:
				if u.Val == ssa.Value(a) {
					ok = false
				}
			case *ssa.DebugRef:
			default:
				ok = false
			}
		}
	}
	// arrays and structs held in cells are fine only when never addressed (covered above)
	fx.eng.cellCache[a] = ok
	return ok
}

func (fx *FuncExec) valueOf(st *State, v ssa.Value) Value {
	ts := fx.ts
	switch x := v.(type) {
	case *ssa.Const:
		return fx.constValue(x)
	case *ssa.Global:
		return VPtr{"global:" + globalName(x), ts.Int(1), x.Type().(*types.Pointer).Elem()}
	case *ssa.Function:
		return VFunc{x, nil}
	case *ssa.Builtin:
		return VBuiltin{x.Name()}
	case *ssa.Alloc:
		if fx.isCell(x) {
			return VCell{x}
		}
	}
	if r, ok := st.vals[v]; ok {
		return r
	}
	if fx.discover > 0 {
		return fx.freshValue("dv", v.Type(), nil)
	}
	fx.unsupported(fmt.Sprintf("use of SSA value %s (%T) with no definition on this path in %s", v.Name(), v, shortFuncName(v.Parent())))
	r := fx.freshValue("undef."+v.Name(), v.Type(), nil)
	st.vals[v] = r
	return r
}

func globalName(g *ssa.Global) string {
	p := g.Pkg.Pkg.Path()
	if p == "github.com/dgrr/http2" {
		return g.Name()
	}
	if p == "github.com/dgrr/http2/http2utils" {
		return "http2utils." + g.Name()
	}
	return p + "." + g.Name()
}

func (fx *FuncExec) constValue(c *ssa.Const) Value {
	ts := fx.ts
	t := c.Type()
	switch u := t.Underlying().(type) {
	case *types.Basic:
		switch {
		case u.Info()&types.IsBoolean != 0:
			return VBool{ts.Bool(constant.BoolVal(c.Value))}
		case u.Info()&types.IsInteger != 0:
			bi, _ := new(big.Int).SetString(c.Value.ExactString(), 10)
			if bi == nil {
				if i, ok := constant.Int64Val(constant.ToInt(c.Value)); ok {
					bi = big.NewInt(i)
				}
			}
			return VInt{ts.BigInt(bi)}
		case u.Info()&types.IsString != 0:
			return VStr{ts.Int(fx.eng.stringID(constant.StringVal(c.Value)))}
		case u.Kind() == types.UntypedNil:
			return VOpaque{ts.Int(0), t}
		case u.Info()&types.IsFloat != 0:
			return VOpaque{ts.Fresh("float", SInt), t}
		}
	case *types.Pointer:
		return VPtr{ptrKey(u.Elem()), ts.Int(0), u.Elem()}
	case *types.Slice:
		z := ts.Int(0)
		return mkSlice(z, z, z, z, u.Elem())
	case *types.Interface:
		return VIface{ts.Int(0), ts.Int(0)}
	case *types.Struct:
		return fx.zeroValue(t)
	case *types.Array:
		return fx.zeroValue(t)
	case *types.Signature:
		return VOpaque{ts.Int(0), t}
	case *types.Map, *types.Chan:
		return VOpaque{ts.Int(0), t}
	}
	return VOpaque{ts.Int(0), t}
}

func (fx *FuncExec) zeroValue(t types.Type) Value {
	ts := fx.ts
	switch u := t.Underlying().(type) {
	case *types.Basic:
		switch {
		case u.Info()&types.IsBoolean != 0:
			return VBool{ts.False()}
		case u.Info()&types.IsInteger != 0:
			return VInt{ts.Int(0)}
		case u.Info()&types.IsString != 0:
			return VStr{ts.Int(fx.eng.stringID(""))}
		}
		return VOpaque{ts.Int(0), t}
	case *types.Pointer:
		return VPtr{ptrKey(u.Elem()), ts.Int(0), u.Elem()}
	case *types.Slice:
		z := ts.Int(0)
		return mkSlice(z, z, z, z, u.Elem())
	case *types.Interface:
		return VIface{ts.Int(0), ts.Int(0)}
	case *types.Struct:
		fs := make([]Value, u.NumFields())
		for i := range fs {
			fs[i] = fx.zeroValue(u.Field(i).Type())
		}
		return VStruct{t, fs}
	case *types.Array:
		if intRepresentable(u.Elem()) {
			return VArr{fx.constArr(0), u.Len(), t}
		}
	}
	return VOpaque{ts.Int(0), t}
}

func (fx *FuncExec) constArr(v int64) *Term {
	return fx.ts.intern(&Term{op: "raw", name: fmt.Sprintf("((as const (Array Int Int)) %d)", v), sort: SArr})
}

// freshValue makes an unconstrained value of Go type t with its type's
// well-formedness facts. st may be nil (then no allocation-order facts).
func (fx *FuncExec) freshValue(hint string, t types.Type, st *State) Value {
	return fx.freshValueR(hint, t, st, fx.ts.True())
}

func (fx *FuncExec) freshValueR(hint string, t types.Type, st *State, reach *Term) Value {
	ts := fx.ts
	switch u := t.Underlying().(type) {
	case *types.Basic:
		switch {
		case u.Info()&types.IsBoolean != 0:
			return VBool{ts.Fresh(hint, SBool)}
		case u.Info()&types.IsInteger != 0:
			it, _ := intTyOf(u)
			v := ts.Fresh(hint, SInt)
			ts.SetRange(v, it.min(), it.max())
			fx.addFact(ts.True(), ts.mk("and", SBool, ts.mk("<=", SBool, ts.BigInt(it.min()), v), ts.mk("<=", SBool, v, ts.BigInt(it.max()))))
			return VInt{v}
		case u.Info()&types.IsString != 0:
			return VStr{ts.Fresh(hint, SInt)}
		}
		return VOpaque{ts.Fresh(hint, SInt), t}
	case *types.Pointer:
		r := ts.Fresh(hint, SInt)
		fx.ptrFacts(r, st, reach)
		p := VPtr{ptrKey(u.Elem()), r, u.Elem()}
		if st != nil {
			fx.assumeHeapInvariants(p, st, reach)
		}
		return p
	case *types.Slice:
		s := mkSlice(ts.Fresh(hint+".arr", SInt), ts.Fresh(hint+".off", SInt), ts.Fresh(hint+".len", SInt), ts.Fresh(hint+".cap", SInt), u.Elem())
		fx.sliceFacts(s, st, reach)
		return s
	case *types.Interface:
		v := VIface{ts.Fresh(hint+".tag", SInt), ts.Fresh(hint+".val", SInt)}
		fx.addFact(reach, ts.mk("<=", SBool, ts.Int(0), v.tag))
		return v
	case *types.Struct:
		fs := make([]Value, u.NumFields())
		for i := range fs {
			fs[i] = fx.freshValueR(hint+"."+u.Field(i).Name(), u.Field(i).Type(), st, reach)
		}
		return VStruct{t, fs}
	case *types.Tuple:
		vs := make([]Value, u.Len())
		for i := range vs {
			vs[i] = fx.freshValueR(fmt.Sprintf("%s.%d", hint, i), u.At(i).Type(), st, reach)
		}
		return VTuple{vs}
	case *types.Array:
		if intRepresentable(u.Elem()) {
			return VArr{ts.Fresh(hint, SArr), u.Len(), t}
		}
	}
	return VOpaque{ts.Fresh(hint, SInt), t}
}

var big2p40 = pow2(40)

func (fx *FuncExec) ptrFacts(r *Term, st *State, reach *Term) {
	ts := fx.ts
	ts.SetRange(r, bigZero, big2p40)
	fx.addFact(ts.True(), ts.mk("<=", SBool, ts.Int(0), r))
	if st != nil {
		fx.addFact(reach, ts.mk("<", SBool, r, fx.heapGet(st, allocKey, SInt)))
	}
}

func (fx *FuncExec) sliceFacts(s VSlice, st *State, reach *Term) {
	ts := fx.ts
	for _, x := range []*Term{s.off, s.len, s.cap} {
		ts.SetRange(x, bigZero, big2p40)
	}
	wf := ts.mk("and", SBool,
		ts.mk("<=", SBool, ts.Int(0), s.off), ts.mk("<=", SBool, ts.Int(0), s.len), ts.mk("<=", SBool, s.len, s.cap),
		ts.mk("<=", SBool, ts.mk("+", SInt, s.off, s.cap), ts.BigInt(big2p40)),
		// nil slice: arr 0 has no capacity
		ts.mk("=>", SBool, ts.mk("=", SBool, s.arr, ts.Int(0)), ts.mk("=", SBool, s.cap, ts.Int(0))))
	fx.addFact(ts.True(), wf)
	if st != nil {
		a := fx.heapGet(st, allocKey, SInt)
		// array ids: fresh arrays are below the allocation counter; negative ids are arrays embedded in
		// objects, whose owner is below the counter as well
		fx.addFact(reach, ts.And(ts.Lt(s.arr, a), ts.Lt(ts.Neg(ts.Mul(a, ts.Int(1024))), ts.Add(s.arr, ts.Int(1)))))
	}
}

// alloc returns a fresh object reference.
func (fx *FuncExec) alloc(st *State) *Term {
	ts := fx.ts
	a := fx.heapGet(st, allocKey, SInt)
	if a.op == "var" {
		fx.addFact(ts.True(), ts.mk("<=", SBool, ts.Int(100000), a))
		ts.SetRange(a, big.NewInt(100000), nil2(big2p40))
	}
	fx.heapSet(st, allocKey, ts.Add(a, ts.Int(1)))
	return a
}

func nil2(b *big.Int) *big.Int { return new(big.Int).Mul(b, big.NewInt(2)) }

// ---------- memory ----------

func (fx *FuncExec) embID(ref *Term, key string) *Term {
	ts := fx.ts
	tag := fx.eng.embTag(key)
	// -(ref*1024 + tag) - 1
	return ts.Sub(ts.Int(-1-int64(tag)), ts.Mul(ref, ts.Int(1024)))
}

func (fx *FuncExec) fieldArraySort(t types.Type) string {
	if b, ok := t.Underlying().(*types.Basic); ok && b.Info()&types.IsBoolean != 0 {
		return SArrB
	}
	return SArr
}

// load reads a value of type t at address a.
func (fx *FuncExec) load(st *State, reach *Term, a Value, t types.Type) Value {
	ts := fx.ts
	switch ad := a.(type) {
	case VCell:
		if v, ok := st.cells[ad.a]; ok {
			return v
		}
		z := fx.zeroValue(t)
		return z
	case VPtr:
		return fx.loadField(st, reach, ad.key, ad.ref, t)
	case VElem:
		if ad.tbl != "" {
			// constant package-level table: its contents come from the source text (function tbl.<name>)
			if fx.tables == nil {
				fx.tables = map[string]bool{}
			}
			fx.tables[ad.tbl] = true
			fx.usesSpec = true
			v := ts.App("tbl."+sanitize(ad.tbl), SInt, ad.idx)
			return fx.typedScalar(st, reach, v, t)
		}
		if ad.heap == "elem:*sync.Pool" {
			// framePools[k]: the pool is identified by its index
			return VPtr{"pool:frame", ad.idx, t.Underlying().(*types.Pointer).Elem()}
		}
		if !intRepresentable(ad.typ) {
			fx.note("load of non-scalar slice element (" + typeKey(ad.typ) + ") is havoc")
			return fx.freshValueR("elem", t, st, reach)
		}
		h := fx.heapGet(st, ad.heap, SArr2)
		v := ts.Select(ts.Select(h, ad.arr), ad.idx)
		return fx.typedScalar(st, reach, v, t)
	}
	fx.unsupported(fmt.Sprintf("load through %T", a))
	return fx.freshValueR("ld", t, st, reach)
}

// typedScalar wraps an Int read from a heap into the Value for type t and
// records the type's range as a fact.
func (fx *FuncExec) typedScalar(st *State, reach *Term, v *Term, t types.Type) Value {
	ts := fx.ts
	switch u := t.Underlying().(type) {
	case *types.Basic:
		if it, ok := intTyOf(u); ok {
			if !v.isConst() && (v.op == "select" || v.op == "ite" || v.op == "var" || v.op == "app") {
				if v.lo == nil || v.hi == nil {
					ts.SetRange(v, it.min(), it.max())
					fx.addFact(ts.True(), ts.mk("and", SBool, ts.mk("<=", SBool, ts.BigInt(it.min()), v), ts.mk("<=", SBool, v, ts.BigInt(it.max()))))
				}
			}
			return VInt{v}
		}
		if u.Info()&types.IsString != 0 {
			return VStr{v}
		}
		return VOpaque{v, t}
	case *types.Pointer:
		if !v.isConst() {
			fx.addFact(ts.True(), ts.mk("<=", SBool, ts.Int(0), v))
			ts.SetRange(v, bigZero, big2p40)
			fx.addFact(reach, ts.mk("<", SBool, v, fx.heapGet(st, allocKey, SInt)))
		}
		p := VPtr{ptrKey(u.Elem()), v, u.Elem()}
		fx.assumeHeapInvariants(p, st, reach)
		return p
	}
	return VOpaque{v, t}
}

func (fx *FuncExec) loadField(st *State, reach *Term, key string, ref *Term, t types.Type) Value {
	ts := fx.ts
	if strings.HasPrefix(key, "global:") {
		if v := fx.globalValue(st, strings.TrimPrefix(key, "global:"), t); v != nil {
			return v
		}
		gname := strings.TrimPrefix(key, "global:")
		if invs := fx.eng.cs.GlobalInvs[gname]; len(invs) > 0 && !fx.eng.mutableGlobals[gname] && !fx.inGlobalInv {
			fx.inGlobalInv = true
			v := fx.loadField(st, reach, key, ref, t)
			for _, c := range invs {
				env := &cenv{fx: fx, st: st, old: st, binds: map[string]Value{"self": v}, reach: reach, params: map[string]Value{}}
				if tm, err := fx.evalClause(c, env); err == nil {
					fx.addFact(reach, tm)
				} else {
					fx.note("globalinvariant " + gname + " not evaluated: " + err.Error())
				}
			}
			fx.inGlobalInv = false
			return v
		}
	}
	switch u := t.Underlying().(type) {
	case *types.Basic:
		if u.Info()&types.IsBoolean != 0 {
			return VBool{ts.Select(fx.heapGet(st, key, SArrB), ref)}
		}
		return fx.typedScalar(st, reach, ts.Select(fx.heapGet(st, key, SArr), ref), t)
	case *types.Pointer:
		return fx.typedScalar(st, reach, ts.Select(fx.heapGet(st, key, SArr), ref), t)
	case *types.Slice:
		s := mkSlice(ts.Select(fx.heapGet(st, key+"#arr", SArr), ref), ts.Select(fx.heapGet(st, key+"#off", SArr), ref),
			ts.Select(fx.heapGet(st, key+"#len", SArr), ref), ts.Select(fx.heapGet(st, key+"#cap", SArr), ref), u.Elem())
		if !s.len.isConst() {
			fx.sliceFacts(s, st, reach)
		}
		return s
	case *types.Interface:
		v := VIface{ts.Select(fx.heapGet(st, key+"#tag", SArr), ref), ts.Select(fx.heapGet(st, key+"#val", SArr), ref)}
		if !v.tag.isConst() {
			fx.addFact(ts.True(), ts.mk("<=", SBool, ts.Int(0), v.tag))
		}
		// the value of a variable of another package (io.EOF, io.ErrUnexpectedEOF ...) is not one of this package's own
		// statically created objects (its errors.New values live at references 1000000 + index)
		if strings.HasPrefix(key, "global:") && strings.Contains(strings.TrimPrefix(key, "global:"), "/") == false &&
			strings.Contains(strings.TrimPrefix(key, "global:"), ".") && !strings.HasPrefix(key, "global:http2utils.") {
			fx.addFact(ts.True(), ts.Or(ts.Eq(v.tag, ts.Int(0)), ts.Lt(v.val, ts.Int(1000000)), ts.Le(ts.Int(1100000), v.val)))
			// the error variables a library exports (io.EOF, io.ErrUnexpectedEOF, bufio.ErrBufferFull ...) are not nil
			if i := strings.LastIndex(key, "."); i >= 0 && (strings.HasPrefix(key[i+1:], "Err") || key[i+1:] == "EOF") {
				fx.addFact(ts.True(), ts.Ne(v.tag, ts.Int(0)))
			}
		}
		return v
	case *types.Struct:
		fs := make([]Value, u.NumFields())
		for i := range fs {
			fs[i] = fx.loadField(st, reach, key+"."+u.Field(i).Name(), ref, u.Field(i).Type())
		}
		return VStruct{t, fs}
	case *types.Array:
		if intRepresentable(u.Elem()) {
			h := fx.heapGet(st, elemHeapKey(u.Elem()), SArr2)
			return VArr{ts.Select(h, fx.embID(ref, key)), u.Len(), t}
		}
		fx.note("load of array of " + typeKey(u.Elem()) + " is havoc")
		return fx.freshValueR("arr", t, st, reach)
	}
	// maps, chans, funcs: opaque ids
	ov := VOpaque{ts.Select(fx.heapGet(st, key, SArr), ref), t}
	if _, isFn := t.Underlying().(*types.Signature); isFn && ov.t.isInt() {
		if f, ok := fx.closures[ov.t.ival.Int64()]; ok {
			return f
		}
	}
	if _, isChan := t.Underlying().(*types.Chan); isChan {
		fx.chanKey[ov.t.id] = key
	}
	return ov
}

func (fx *FuncExec) store(st *State, reach *Term, a Value, v Value, t types.Type) {
	switch ad := a.(type) {
	case VCell:
		st.cells[ad.a] = v
		st.wcells[ad.a] = true
	case VPtr:
		fx.storeField(st, ad.key, ad.ref, v, t)
	case VElem:
		if !intRepresentable(ad.typ) {
			fx.note("store of non-scalar slice element (" + typeKey(ad.typ) + ") is dropped")
			return
		}
		ts := fx.ts
		h := fx.heapGet(st, ad.heap, SArr2)
		var sv *Term
		switch x := v.(type) {
		case VInt:
			sv = x.t
		case VPtr:
			if x.key != ptrKey(x.typ) {
				fx.unsupported("interior pointer stored into a slice")
			}
			sv = x.ref
		case VOpaque:
			sv = x.t
		default:
			fx.unsupported(fmt.Sprintf("store of %T into slice element", v))
			return
		}
		fx.heapSet(st, ad.heap, ts.Store(h, ad.arr, ts.Store(ts.Select(h, ad.arr), ad.idx, sv)))
	default:
		fx.unsupported(fmt.Sprintf("store through %T", a))
	}
}

func (fx *FuncExec) storeField(st *State, key string, ref *Term, v Value, t types.Type) {
	ts := fx.ts
	set := func(k, sort string, val *Term) {
		fx.heapSet(st, k, ts.Store(fx.heapGet(st, k, sort), ref, val))
	}
	switch u := t.Underlying().(type) {
	case *types.Basic:
		if u.Info()&types.IsBoolean != 0 {
			set(key, SArrB, v.(VBool).t)
			return
		}
		switch x := v.(type) {
		case VInt:
			set(key, SArr, x.t)
		case VStr:
			set(key, SArr, x.id)
		case VOpaque:
			set(key, SArr, x.t)
		default:
			fx.unsupported(fmt.Sprintf("store of %T at basic field %s", v, key))
		}
	case *types.Pointer:
		switch x := v.(type) {
		case VPtr:
			if x.key != ptrKey(u.Elem()) && !(x.ref.isInt() && x.ref.ival.Sign() == 0) {
				fx.unsupported("interior pointer (" + x.key + ") stored into heap field " + key)
			}
			set(key, SArr, x.ref)
		case VOpaque:
			set(key, SArr, x.t)
		default:
			fx.unsupported(fmt.Sprintf("store of %T at pointer field %s", v, key))
		}
	case *types.Slice:
		s, ok := v.(VSlice)
		if !ok {
			fx.unsupported(fmt.Sprintf("store of %T at slice field %s", v, key))
			return
		}
		set(key+"#arr", SArr, s.arr)
		set(key+"#off", SArr, s.off)
		set(key+"#len", SArr, s.len)
		set(key+"#cap", SArr, s.cap)
	case *types.Interface:
		i, ok := v.(VIface)
		if !ok {
			fx.unsupported(fmt.Sprintf("store of %T at interface field %s", v, key))
			return
		}
		set(key+"#tag", SArr, i.tag)
		set(key+"#val", SArr, i.val)
	case *types.Struct:
		sv, ok := v.(VStruct)
		if !ok {
			fx.unsupported(fmt.Sprintf("store of %T at struct field %s", v, key))
			return
		}
		for i := 0; i < u.NumFields(); i++ {
			fx.storeField(st, key+"."+u.Field(i).Name(), ref, sv.fields[i], u.Field(i).Type())
		}
	case *types.Array:
		av, ok := v.(VArr)
		if !ok || !intRepresentable(u.Elem()) {
			fx.note("store of array of " + typeKey(u.Elem()) + " is dropped")
			return
		}
		hk := elemHeapKey(u.Elem())
		h := fx.heapGet(st, hk, SArr2)
		fx.heapSet(st, hk, ts.Store(h, fx.embID(ref, key), av.arr))
	default:
		switch x := v.(type) {
		case VOpaque:
			set(key, SArr, x.t)
		case VFunc:
			// closures keep their bindings: register this closure value under a fresh id
			fx.closureSeq++
			id := int64(1000000 + fx.closureSeq)
			if fx.closures == nil {
				fx.closures = map[int64]VFunc{}
			}
			fx.closures[id] = x
			set(key, SArr, ts.Int(id))
		default:
			fx.note(fmt.Sprintf("store of %T at field %s dropped", v, key))
			set(key, SArr, ts.Fresh("st", SInt))
		}
	}
}

// ---------- instructions ----------

func (fx *FuncExec) execInstr(fn *ssa.Function, st *State, reach *Term, in ssa.Instruction) *Term {
	ts := fx.ts
	src := srcOf(fn, in)
	switch ins := in.(type) {
	case *ssa.DebugRef:
		return reach
	case *ssa.Alloc:
		if fx.isCell(ins) {
			// zero value on (re)declaration
			st.cells[ins] = fx.zeroValue(ins.Type().(*types.Pointer).Elem())
			st.wcells[ins] = true
			return reach
		}
		et := ins.Type().(*types.Pointer).Elem()
		ref := fx.alloc(st)
		p := VPtr{ptrKey(et), ref, et}
		fx.storeField(st, p.key, ref, fx.zeroValue(et), et)
		st.vals[ins] = p
		return reach
	case *ssa.UnOp:
		x := fx.valueOf(st, ins.X)
		switch ins.Op {
		case token.MUL: // load
			reach = fx.nilCheck(reach, x, src)
			st.vals[ins] = fx.load(st, reach, x, ins.Type())
		case token.NOT:
			st.vals[ins] = VBool{ts.Not(x.(VBool).t)}
		case token.SUB:
			it, _ := intTyOf(ins.Type())
			r, ovf, _ := ts.BinOp(token.SUB, it, ts.Int(0), x.(VInt).t, it, fx.wrapSigned)
			if ovf != nil {
				fx.addObl("ovf", "neg", src, reach, ovf)
			}
			st.vals[ins] = VInt{r}
		case token.XOR:
			it, _ := intTyOf(ins.Type())
			// ^x = -x-1 (signed) / max - x (unsigned)
			if it.signed {
				st.vals[ins] = VInt{ts.Sub(ts.Neg(x.(VInt).t), ts.Int(1))}
			} else {
				st.vals[ins] = VInt{ts.Sub(ts.BigInt(it.max()), x.(VInt).t)}
			}
		case token.ARROW:
			fx.note("channel receive yields an arbitrary value")
			st.vals[ins] = fx.freshValueR("recv", ins.Type(), st, reach)
			if cv, ok := x.(VOpaque); ok {
				rv := st.vals[ins]
				if tv, ok := rv.(VTuple); ok && len(tv.vals) > 0 {
					rv = tv.vals[0]
				}
				fx.assumeChanInv(fn, st, reach, fx.chanKey[cv.t.id], rv)
			}
		default:
			fx.unsupported("unary " + ins.Op.String())
			st.vals[ins] = fx.freshValueR("un", ins.Type(), st, reach)
		}
		return reach
	case *ssa.Store:
		a := fx.valueOf(st, ins.Addr)
		reach = fx.nilCheck(reach, a, src)
		fx.store(st, reach, a, fx.valueOf(st, ins.Val), ins.Val.Type())
		return reach
	case *ssa.BinOp:
		return fx.execBinOp(st, reach, ins, src)
	case *ssa.Convert:
		st.vals[ins] = fx.convert(st, reach, fx.valueOf(st, ins.X), ins.X.Type(), ins.Type(), src)
		return reach
	case *ssa.ChangeType:
		v := fx.valueOf(st, ins.X)
		switch x := v.(type) {
		case VOpaque:
			v = VOpaque{x.t, ins.Type()}
		case VStruct:
			v = VStruct{ins.Type(), x.fields}
		case VSlice:
			if sl, ok := ins.Type().Underlying().(*types.Slice); ok {
				v = mkSlice(x.arr, x.off, x.len, x.cap, sl.Elem())
			}
		}
		st.vals[ins] = v
		return reach
	case *ssa.FieldAddr:
		x := fx.valueOf(st, ins.X)
		reach = fx.nilCheck(reach, x, src)
		p, ok := x.(VPtr)
		if !ok {
			fx.unsupported(fmt.Sprintf("FieldAddr on %T", x))
			st.vals[ins] = fx.freshValueR("fa", ins.Type(), st, reach)
			return reach
		}
		stt := p.typ.Underlying().(*types.Struct)
		f := stt.Field(ins.Field)
		st.vals[ins] = VPtr{p.key + "." + f.Name(), p.ref, f.Type()}
		return reach
	case *ssa.Field:
		x := fx.valueOf(st, ins.X)
		if sv, ok := x.(VStruct); ok {
			st.vals[ins] = sv.fields[ins.Field]
		} else {
			fx.unsupported(fmt.Sprintf("Field on %T", x))
			st.vals[ins] = fx.freshValueR("fld", ins.Type(), st, reach)
		}
		return reach
	case *ssa.IndexAddr:
		return fx.execIndexAddr(st, reach, ins, src)
	case *ssa.Index:
		x := fx.valueOf(st, ins.X)
		i := fx.valueOf(st, ins.Index).(VInt).t
		switch xv := x.(type) {
		case VArr:
			reach = fx.safe(reach, "index", src, ts.And(ts.Le(ts.Int(0), i), ts.Lt(i, ts.Int(xv.n))))
			st.vals[ins] = fx.typedScalar(st, reach, ts.Select(xv.arr, i), ins.Type())
		case VStr:
			n := fx.strLen(xv.id)
			reach = fx.safe(reach, "index", src, ts.And(ts.Le(ts.Int(0), i), ts.Lt(i, n)))
			st.vals[ins] = fx.freshValueR("strbyte", ins.Type(), st, reach)
		default:
			fx.note("Index on unmodelled array value is havoc")
			st.vals[ins] = fx.freshValueR("idx", ins.Type(), st, reach)
		}
		return reach
	case *ssa.Slice:
		return fx.execSlice(st, reach, ins, src)
	case *ssa.MakeSlice:
		n := fx.valueOf(st, ins.Len).(VInt).t
		c := fx.valueOf(st, ins.Cap).(VInt).t
		reach = fx.safe(reach, "makelen", src, ts.And(ts.Le(ts.Int(0), n), ts.Le(n, c)))
		fx.addFact(reach, ts.Le(c, ts.BigInt(big2p40))) // size assumption
		el := ins.Type().Underlying().(*types.Slice).Elem()
		id := fx.alloc(st)
		if intRepresentable(el) {
			hk := elemHeapKey(el)
			fx.heapSet(st, hk, ts.Store(fx.heapGet(st, hk, SArr2), id, fx.constArr(0)))
		}
		st.vals[ins] = mkSlice(id, ts.Int(0), n, c, el)
		fx.recordAlloc(reach, n, src)
		return reach
	case *ssa.MakeInterface:
		st.vals[ins] = fx.makeInterface(st, reach, fx.valueOf(st, ins.X), ins.X.Type())
		return reach
	case *ssa.ChangeInterface:
		st.vals[ins] = fx.valueOf(st, ins.X)
		return reach
	case *ssa.TypeAssert:
		return fx.execTypeAssert(st, reach, ins, src)
	case *ssa.Extract:
		t := fx.valueOf(st, ins.Tuple)
		if tv, ok := t.(VTuple); ok && ins.Index < len(tv.vals) {
			st.vals[ins] = tv.vals[ins.Index]
		} else {
			st.vals[ins] = fx.freshValueR("ext", ins.Type(), st, reach)
		}
		return reach
	case *ssa.Call:
		return fx.execCall(fn, st, reach, ins, &ins.Call, src)
	case *ssa.MakeClosure:
		var bs []Value
		for _, b := range ins.Bindings {
			bs = append(bs, fx.valueOf(st, b))
		}
		st.vals[ins] = VFunc{ins.Fn.(*ssa.Function), bs}
		return reach
	case *ssa.Defer:
		// argument values are captured now; the call runs at RunDefers
		rec := deferRec{ins: ins}
		for _, a := range ins.Call.Args {
			rec.args = append(rec.args, fx.valueOf(st, a))
		}
		if !ins.Call.IsInvoke() {
			rec.fn = fx.valueOf(st, ins.Call.Value)
		}
		rec.reach = reach
		if st.defers == nil {
			st.defers = map[*ssa.Function][]deferRec{}
		}
		st.defers[fn] = append(st.defers[fn], rec)
		return reach
	case *ssa.RunDefers:
		ds := st.defers[fn]
		if st.defers != nil {
			delete(st.defers, fn)
		}
		for i := len(ds) - 1; i >= 0; i-- {
			d := ds[i]
			if d.ins.Call.IsInvoke() {
				fx.note("deferred interface call is not modelled")
				continue
			}
			fx.curDefer[&d.ins.Call] = deferCall{d.args, d.fn}
			reach = fx.execCall(fn, st, reach, nil, &d.ins.Call, srcOf(fn, d.ins))
			delete(fx.curDefer, &d.ins.Call)
		}
		return reach
	case *ssa.Go:
		fx.note("goroutine start is a no-op; its body is verified separately")
		return reach
	case *ssa.Send:
		fx.note("channel send is a no-op")
		if len(fx.stack) == 1 && fx.con != nil && len(fx.con.Anchors) > 0 {
			// anchors send#k: k-th channel send of the function in source order; arg0 is the value sent
			var sends []*ssa.Send
			for _, b := range fn.Blocks {
				for _, in2 := range b.Instrs {
					if s2, ok := in2.(*ssa.Send); ok {
						sends = append(sends, s2)
					}
				}
			}
			sort.Slice(sends, func(i, j int) bool { return sends[i].Pos() < sends[j].Pos() })
			for i, s2 := range sends {
				if s2 == ins {
					if ac := fx.anchorContract(fn); ac != nil {
						reach = fx.runAnchors(fn, ac, st, reach, fmt.Sprintf("send#%d", i+1), []Value{fx.valueOf(st, ins.X)}, src)
					}
				}
			}
		}
		return reach
	case *ssa.Select:
		fx.note("select yields an arbitrary ready case and arbitrary received values")
		st.vals[ins] = fx.freshValueR("select", ins.Type(), st, reach)
		// declared channel invariants hold for what is received
		if tv, ok := st.vals[ins].(VTuple); ok {
			ri := 2
			for _, sst := range ins.States {
				if sst.Dir != types.RecvOnly {
					continue
				}
				if ri < len(tv.vals) {
					if cv, ok := fx.valueOf(st, sst.Chan).(VOpaque); ok {
						fx.assumeChanInv(fn, st, reach, fx.chanKey[cv.t.id], tv.vals[ri])
					}
					// nobody sends nil on the package's channels: a successful receive of a pointer is non-nil (trusted)
					if p, ok := tv.vals[ri].(VPtr); ok && len(tv.vals) > 1 {
						if okv, ok := tv.vals[1].(VBool); ok {
							fx.addFact(reach, ts.Implies(okv.t, ts.Ne(p.ref, ts.Int(0))))
						}
					}
					// (values of channels that are never closed, listed with `chan`, are non-nil as well)
					if p, ok := tv.vals[ri].(VPtr); ok {
						if cv, ok := fx.valueOf(st, sst.Chan).(VOpaque); ok && fx.eng.cs.NeverClosed[fx.chanKey[cv.t.id]] {
							fx.addFact(reach, ts.Ne(p.ref, ts.Int(0)))
						}
					}
				}
				ri++
			}
		}
		if tv, ok := st.vals[ins].(VTuple); ok && len(tv.vals) > 0 {
			if iv, ok := tv.vals[0].(VInt); ok {
				lo := int64(0)
				if !ins.Blocking {
					lo = -1
				}
				fx.addFact(reach, ts.And(ts.Le(ts.Int(lo), iv.t), ts.Lt(iv.t, ts.Int(int64(len(ins.States))))))
			}
		}
		return reach
	case *ssa.MakeChan, *ssa.MakeMap:
		v := in.(ssa.Value)
		st.vals[v] = VOpaque{fx.alloc(st), v.Type()}
		return reach
	case *ssa.MapUpdate:
		fx.note("map update is not modelled (maps are opaque)")
		return reach
	case *ssa.Lookup:
		if _, isStr := ins.X.Type().Underlying().(*types.Basic); isStr {
			x := fx.valueOf(st, ins.X).(VStr)
			i := fx.valueOf(st, ins.Index).(VInt).t
			reach = fx.safe(reach, "index", src, ts.And(ts.Le(ts.Int(0), i), ts.Lt(i, fx.strLen(x.id))))
			st.vals[ins] = fx.freshValueR("strbyte", ins.Type(), st, reach)
			return reach
		}
		fx.note("map lookup yields an arbitrary value (pointer values: non-nil exactly when the key is present)")
		v := fx.freshValueR("lookup", ins.Type(), st, reach)
		if tv, ok := v.(VTuple); ok && ins.CommaOk && len(tv.vals) == 2 {
			// maps of pointers in this package never store nil (trusted map invariant, see DESIGN)
			if p, ok := tv.vals[0].(VPtr); ok {
				if okv, ok := tv.vals[1].(VBool); ok {
					fx.addFact(reach, ts.Eq(okv.t, ts.Ne(p.ref, ts.Int(0))))
					// declared type invariants hold for objects kept in the package's maps (trusted)
					for _, c := range fx.eng.cs.Types[typeKey(p.typ)] {
						env := &cenv{fx: fx, fn: fn, st: st, old: st, binds: map[string]Value{"self": p}, reach: reach, params: map[string]Value{}}
						if t, err := fx.evalClause(c, env); err == nil {
							fx.addFact(reach, ts.Implies(okv.t, t))
							fx.note("type invariant of " + typeKey(p.typ) + " assumed for values found in a map")
						}
					}
				}
			}
		}
		if p, ok := v.(VPtr); ok && !ins.CommaOk {
			for _, c := range fx.eng.cs.Types[typeKey(p.typ)] {
				env := &cenv{fx: fx, fn: fn, st: st, old: st, binds: map[string]Value{"self": p}, reach: reach, params: map[string]Value{}}
				if t, err := fx.evalClause(c, env); err == nil {
					fx.addFact(reach, ts.Implies(ts.Ne(p.ref, ts.Int(0)), t))
				}
			}
		}
		st.vals[ins] = v
		return reach
	case *ssa.Range:
		st.vals[ins] = VOpaque{ts.Fresh("range", SInt), ins.Type()}
		return reach
	case *ssa.Next:
		fx.note("range over map/string yields arbitrary elements")
		nv := fx.freshValueR("next", ins.Type(), st, reach)
		st.vals[ins] = nv
		// (ok, key, value): maps of pointers in this package never store nil, and the declared type invariant
		// holds for what they store (trusted, as for lookups)
		if tv, ok := nv.(VTuple); ok && len(tv.vals) == 3 {
			if okv, ok := tv.vals[0].(VBool); ok {
				if p, ok := tv.vals[2].(VPtr); ok {
					fx.addFact(reach, ts.Implies(okv.t, ts.Ne(p.ref, ts.Int(0))))
					for _, c := range fx.eng.cs.Types[typeKey(p.typ)] {
						env := &cenv{fx: fx, fn: fn, st: st, old: st, binds: map[string]Value{"self": p}, reach: reach, params: map[string]Value{}}
						if t, err := fx.evalClause(c, env); err == nil {
							fx.addFact(reach, ts.Implies(okv.t, t))
						}
					}
				}
			}
		}
		return reach
	case *ssa.SliceToArrayPointer, *ssa.MultiConvert:
		v := in.(ssa.Value)
		fx.unsupported(fmt.Sprintf("%T", in))
		st.vals[v] = fx.freshValueR("x", v.Type(), st, reach)
		return reach
	}
	if v, ok := in.(ssa.Value); ok {
		fx.unsupported(fmt.Sprintf("instruction %T", in))
		st.vals[v] = fx.freshValueR("x", v.Type(), st, reach)
	} else {
		fx.unsupported(fmt.Sprintf("instruction %T", in))
	}
	return reach
}

type deferRec struct {
	ins   *ssa.Defer
	args  []Value
	fn    Value
	reach *Term
}

func (fx *FuncExec) recordAlloc(reach, n *Term, src string) {
	fx.allocs = append(fx.allocs, allocRec{reach, n, src})
}

type allocRec struct {
	reach, n *Term
	src      string
}

func (fx *FuncExec) strLen(id *Term) *Term {
	ts := fx.ts
	if id.isInt() {
		if s, ok := fx.eng.stringByID[id.ival.Int64()]; ok {
			return ts.Int(int64(len(s)))
		}
	}
	ts.funs["strlen"] = "(declare-fun strlen (Int) Int)"
	t := ts.App("strlen", SInt, id)
	ts.SetRange(t, bigZero, big2p40)
	fx.addFact(ts.True(), ts.mk("and", SBool, ts.mk("<=", SBool, ts.Int(0), t), ts.mk("<=", SBool, t, ts.BigInt(big2p40))))
	return t
}

func (fx *FuncExec) nilCheck(reach *Term, a Value, src string) *Term {
	ts := fx.ts
	switch p := a.(type) {
	case VPtr:
		if p.ref.isInt() && p.ref.ival.Sign() != 0 {
			return reach
		}
		if len(p.key) > 7 && p.key[:7] == "global:" || len(p.key) > 5 && p.key[:5] == "pool:" {
			return reach
		}
		if fx.nonNil[p.ref.id] {
			return reach
		}
		fx.nonNil[p.ref.id] = true // reported once per term
		return fx.safe(reach, "nil", src, ts.Ne(p.ref, ts.Int(0)))
	}
	return reach
}

func (fx *FuncExec) execBinOp(st *State, reach *Term, ins *ssa.BinOp, src string) *Term {
	ts := fx.ts
	x := fx.valueOf(st, ins.X)
	y := fx.valueOf(st, ins.Y)
	switch ins.Op {
	case token.EQL, token.NEQ:
		eq := fx.valueEq(st, reach, x, y, ins.X.Type())
		if ins.Op == token.NEQ {
			eq = ts.Not(eq)
		}
		st.vals[ins] = VBool{eq}
		return reach
	case token.LSS, token.LEQ, token.GTR, token.GEQ:
		xi, ok1 := x.(VInt)
		yi, ok2 := y.(VInt)
		if !ok1 || !ok2 {
			fx.note("ordered comparison of non-integers is havoc")
			st.vals[ins] = VBool{ts.Fresh("cmp", SBool)}
			return reach
		}
		var r *Term
		switch ins.Op {
		case token.LSS:
			r = ts.Lt(xi.t, yi.t)
		case token.LEQ:
			r = ts.Le(xi.t, yi.t)
		case token.GTR:
			r = ts.Gt(xi.t, yi.t)
		case token.GEQ:
			r = ts.Ge(xi.t, yi.t)
		}
		st.vals[ins] = VBool{r}
		return reach
	case token.LAND, token.LOR:
		// not produced by go/ssa (short-circuit is lowered to control flow)
	}
	if xb, ok := x.(VBool); ok {
		yb := y.(VBool)
		switch ins.Op {
		case token.AND:
			st.vals[ins] = VBool{ts.And(xb.t, yb.t)}
		case token.OR:
			st.vals[ins] = VBool{ts.Or(xb.t, yb.t)}
		case token.XOR:
			st.vals[ins] = VBool{ts.Not(ts.Eq(xb.t, yb.t))}
		}
		return reach
	}
	if xs, ok := x.(VStr); ok {
		if ins.Op == token.ADD {
			_ = xs
			fx.note("string concatenation yields an opaque string")
			st.vals[ins] = VStr{ts.Fresh("concat", SInt)}
			return reach
		}
	}
	xi, ok1 := x.(VInt)
	yi, ok2 := y.(VInt)
	it, ok3 := intTyOf(ins.Type())
	if !ok1 || !ok2 || !ok3 {
		fx.note(fmt.Sprintf("binary %s on %T is havoc", ins.Op, x))
		st.vals[ins] = fx.freshValueR("bin", ins.Type(), st, reach)
		return reach
	}
	yt, _ := intTyOf(ins.Y.Type())
	if (ins.Op == token.SHL || ins.Op == token.SHR) && yt.signed {
		reach = fx.safe(reach, "shift", src, ts.Le(ts.Int(0), yi.t))
	}
	r, ovf, divz := ts.BinOp(ins.Op, it, xi.t, yi.t, yt, fx.wrapSigned)
	if divz != nil {
		reach = fx.safe(reach, "div", src, divz)
	}
	if ovf != nil {
		fx.addObl("ovf", exprText(fx.eng, ins), src, reach, ovf)
	}
	st.vals[ins] = VInt{r}
	return reach
}

func exprText(eng *Engine, v ssa.Value) string {
	if b, ok := v.(*ssa.BinOp); ok {
		return b.Op.String()
	}
	return v.Name()
}

// valueEq is Go's == on two values of static type t.
func (fx *FuncExec) valueEq(st *State, reach *Term, x, y Value, t types.Type) *Term {
	ts := fx.ts
	switch xv := x.(type) {
	case VInt:
		if yv, ok := y.(VInt); ok {
			return ts.Eq(xv.t, yv.t)
		}
	case VBool:
		if yv, ok := y.(VBool); ok {
			return ts.Eq(xv.t, yv.t)
		}
	case VPtr:
		switch yv := y.(type) {
		case VPtr:
			if xv.key != yv.key && !isNilTerm(xv.ref) && !isNilTerm(yv.ref) {
				// different heap families never alias unless one is nil
				return ts.And(ts.Eq(xv.ref, ts.Int(0)), ts.Eq(yv.ref, ts.Int(0)))
			}
			return ts.Eq(xv.ref, yv.ref)
		case VOpaque:
			return ts.Eq(xv.ref, yv.t)
		}
	case VSlice:
		// only comparison with nil is legal
		return ts.Eq(xv.arr, ts.Int(0))
	case VStr:
		if yv, ok := y.(VStr); ok {
			if xv.id.isInt() && yv.id.isInt() {
				return ts.Bool(xv.id.ival.Cmp(yv.id.ival) == 0)
			}
			// equal ids imply equal strings; different ids may still be equal strings
			ts.funs["streq"] = "(declare-fun streq (Int Int) Bool)"
			return ts.Or(ts.Eq(xv.id, yv.id), ts.App("streq", SBool, xv.id, yv.id))
		}
	case VIface:
		switch yv := y.(type) {
		case VIface:
			return fx.ifaceEq(st, reach, xv, yv)
		case VOpaque:
			if isNilTerm(yv.t) {
				return ts.Eq(xv.tag, ts.Int(0))
			}
		}
	case VOpaque:
		switch yv := y.(type) {
		case VOpaque:
			return ts.Eq(xv.t, yv.t)
		case VPtr:
			return ts.Eq(xv.t, yv.ref)
		case VIface:
			if isNilTerm(xv.t) {
				return ts.Eq(yv.tag, ts.Int(0))
			}
		case VSlice:
			return ts.Eq(yv.arr, ts.Int(0))
		case VFunc:
			return ts.False()
		}
	case VFunc:
		if yv, ok := y.(VOpaque); ok && isNilTerm(yv.t) {
			return ts.False()
		}
	case VStruct:
		if yv, ok := y.(VStruct); ok && len(xv.fields) == len(yv.fields) {
			var cs []*Term
			stt, _ := xv.typ.Underlying().(*types.Struct)
			for i := range xv.fields {
				var ft types.Type
				if stt != nil {
					ft = stt.Field(i).Type()
				}
				cs = append(cs, fx.valueEq(st, reach, xv.fields[i], yv.fields[i], ft))
			}
			return ts.And(cs...)
		}
	case VArr:
		if yv, ok := y.(VArr); ok {
			var cs []*Term
			for i := int64(0); i < xv.n && i < 64; i++ {
				cs = append(cs, ts.Eq(ts.Select(xv.arr, ts.Int(i)), ts.Select(yv.arr, ts.Int(i))))
			}
			return ts.And(cs...)
		}
	}
	fx.note(fmt.Sprintf("comparison of %T with %T is havoc", x, y))
	return ts.Fresh("eq", SBool)
}

func isNilTerm(t *Term) bool { return t.isInt() && t.ival.Sign() == 0 }

// ifaceEq: dynamic types equal and dynamic values equal. Values of pointer
// types compare by reference; boxed structs of this package compare fieldwise.
func (fx *FuncExec) ifaceEq(st *State, reach *Term, x, y VIface) *Term {
	ts := fx.ts
	// comparison with the nil interface looks at the dynamic type only
	if isNilTerm(y.tag) {
		return ts.Eq(x.tag, ts.Int(0))
	}
	if isNilTerm(x.tag) {
		return ts.Eq(y.tag, ts.Int(0))
	}
	base := ts.And(ts.Eq(x.tag, y.tag), ts.Eq(x.val, y.val))
	// boxed struct types: equal tag and fieldwise equal payloads also count
	var alts []*Term
	for _, id := range fx.eng.sortedTypeIDs() {
		t := fx.eng.typeByID[id]
		if _, ok := t.Underlying().(*types.Struct); !ok {
			continue
		}
		if !types.Comparable(t) || !allBasicFields(t) {
			continue
		}
		a := fx.loadField(st, reach, "box:"+typeKey(t), x.val, t)
		b := fx.loadField(st, reach, "box:"+typeKey(t), y.val, t)
		alts = append(alts, ts.And(ts.Eq(x.tag, ts.Int(int64(id))), ts.Eq(y.tag, ts.Int(int64(id))), fx.valueEq(st, reach, a, b, t)))
	}
	return ts.Or(append([]*Term{base}, alts...)...)
}

func (fx *FuncExec) makeInterface(st *State, reach *Term, v Value, t types.Type) Value {
	ts := fx.ts
	id := fx.eng.typeID(t)
	tag := ts.Int(int64(id))
	switch x := v.(type) {
	case VPtr:
		if x.key != ptrKey(x.typ) {
			fx.unsupported("interior pointer boxed into an interface")
		}
		return VIface{tag, x.ref}
	case VInt:
		return VIface{tag, x.t}
	case VBool:
		return VIface{tag, ts.Ite(x.t, ts.Int(1), ts.Int(0))}
	case VStr:
		return VIface{tag, x.id}
	case VOpaque:
		return VIface{tag, x.t}
	case VStruct:
		ref := fx.alloc(st)
		fx.storeField(st, "box:"+typeKey(t), ref, x, t)
		return VIface{tag, ref}
	case VSlice:
		ref := fx.alloc(st)
		fx.storeField(st, "box:"+typeKey(t), ref, x, t)
		return VIface{tag, ref}
	case VFunc:
		return VIface{tag, ts.Int(int64(fx.eng.funcID(x.fn)))}
	case VIface:
		return x
	}
	fx.note(fmt.Sprintf("boxing of %T yields an opaque payload", v))
	return VIface{tag, ts.Fresh("box", SInt)}
}

// unbox recovers a value of concrete type t from an interface payload.
func (fx *FuncExec) unbox(st *State, reach *Term, iv VIface, t types.Type) Value {
	ts := fx.ts
	switch u := t.Underlying().(type) {
	case *types.Pointer:
		return VPtr{ptrKey(u.Elem()), iv.val, u.Elem()}
	case *types.Basic:
		if u.Info()&types.IsBoolean != 0 {
			return VBool{ts.Eq(iv.val, ts.Int(1))}
		}
		if u.Info()&types.IsString != 0 {
			return VStr{iv.val}
		}
		if _, ok := intTyOf(u); ok {
			return fx.typedScalar(st, reach, iv.val, t)
		}
	case *types.Struct, *types.Slice:
		return fx.loadField(st, reach, "box:"+typeKey(t), iv.val, t)
	}
	return VOpaque{iv.val, t}
}

func (fx *FuncExec) execTypeAssert(st *State, reach *Term, ins *ssa.TypeAssert, src string) *Term {
	ts := fx.ts
	x := fx.valueOf(st, ins.X)
	iv, ok := x.(VIface)
	if !ok {
		fx.unsupported(fmt.Sprintf("type assertion on %T", x))
		st.vals[ins] = fx.freshValueR("ta", ins.Type(), st, reach)
		return reach
	}
	var okT *Term
	var res Value
	if _, isIface := ins.AssertedType.Underlying().(*types.Interface); isIface {
		// interface-to-interface: succeeds iff the dynamic type implements it
		var alts []*Term
		ai := ins.AssertedType.Underlying().(*types.Interface)
		for _, id := range fx.eng.sortedTypeIDs() {
			t := fx.eng.typeByID[id]
			if types.Implements(t, ai) {
				alts = append(alts, ts.Eq(iv.tag, ts.Int(int64(id))))
			}
		}
		known := ts.Or(alts...)
		// dynamic types the engine has not numbered (external packages) are unknown
		unk := ts.And(ts.Gt(iv.tag, ts.Int(int64(fx.eng.maxTypeID()))), ts.Fresh("impl", SBool))
		okT = ts.Or(known, unk)
		res = iv
	} else {
		id := fx.eng.typeID(ins.AssertedType)
		okT = ts.Eq(iv.tag, ts.Int(int64(id)))
		res = fx.unbox(st, reach, iv, ins.AssertedType)
	}
	if ins.CommaOk {
		st.vals[ins] = VTuple{[]Value{res, VBool{okT}}}
		return reach
	}
	reach = fx.safe(reach, "typeassert", src, okT)
	st.vals[ins] = res
	return reach
}

func (fx *FuncExec) convert(st *State, reach *Term, v Value, from, to types.Type, src string) Value {
	ts := fx.ts
	fi, fok := intTyOf(from)
	ti, tok := intTyOf(to)
	if fok && tok {
		return VInt{ts.Convert(fi, ti, v.(VInt).t)}
	}
	switch tu := to.Underlying().(type) {
	case *types.Basic:
		if tu.Info()&types.IsString != 0 {
			// string(bytes) / string(rune): opaque string whose length is known for slices
			id := ts.Fresh("str", SInt)
			if sl, ok := v.(VSlice); ok {
				fx.addFact(reach, ts.Eq(fx.strLen(id), sl.len))
			}
			return VStr{id}
		}
		if tu.Info()&types.IsFloat != 0 {
			return VOpaque{ts.Fresh("float", SInt), to}
		}
		if tok {
			// float -> int etc.
			return fx.freshValueR("conv", to, st, reach)
		}
		if tu.Kind() == types.UnsafePointer {
			fx.unsupported("unsafe.Pointer conversion")
			return VOpaque{ts.Fresh("unsafe", SInt), to}
		}
	case *types.Slice:
		if sv, ok := v.(VStr); ok {
			// []byte(string): fresh array of that length with unknown (or literal) contents
			id := fx.alloc(st)
			n := fx.strLen(sv.id)
			hk := elemHeapKey(tu.Elem())
			if sv.id.isInt() {
				if s, ok := fx.eng.stringByID[sv.id.ival.Int64()]; ok && len(s) <= 64 {
					arr := fx.constArr(0)
					for i := 0; i < len(s); i++ {
						arr = ts.Store(arr, ts.Int(int64(i)), ts.Int(int64(s[i])))
					}
					fx.heapSet(st, hk, ts.Store(fx.heapGet(st, hk, SArr2), id, arr))
					return mkSlice(id, ts.Int(0), n, n, tu.Elem())
				}
			}
			fx.heapSet(st, hk, ts.Store(fx.heapGet(st, hk, SArr2), id, ts.Fresh("strbytes", SArr)))
			return mkSlice(id, ts.Int(0), n, n, tu.Elem())
		}
	case *types.Pointer:
		if p, ok := v.(VPtr); ok {
			// pointer conversion between types with the same underlying type, e.g. (*int32)(&sc.state)
			return VPtr{p.key, p.ref, tu.Elem()}
		}
		if _, ok := v.(VOpaque); ok {
			fx.unsupported("conversion to pointer from unsafe.Pointer")
			return fx.freshValueR("conv", to, st, reach)
		}
	}
	fx.note(fmt.Sprintf("conversion %s -> %s is havoc", typeKey(from), typeKey(to)))
	return fx.freshValueR("conv", to, st, reach)
}

func (fx *FuncExec) execIndexAddr(st *State, reach *Term, ins *ssa.IndexAddr, src string) *Term {
	ts := fx.ts
	x := fx.valueOf(st, ins.X)
	i := fx.valueOf(st, ins.Index).(VInt).t
	switch xv := x.(type) {
	case VSlice:
		reach = fx.safe(reach, "index", src, ts.And(ts.Le(ts.Int(0), i), ts.Lt(i, xv.len)))
		st.vals[ins] = VElem{heap: elemHeapKey(xv.elem), arr: xv.arr, idx: ts.Add(xv.off, i), typ: xv.elem}
	case VPtr:
		reach = fx.nilCheck(reach, x, src)
		at, ok := xv.typ.Underlying().(*types.Array)
		if !ok {
			fx.unsupported("IndexAddr on pointer to " + typeKey(xv.typ))
			st.vals[ins] = fx.freshValueR("ia", ins.Type(), st, reach)
			return reach
		}
		reach = fx.safe(reach, "index", src, ts.And(ts.Le(ts.Int(0), i), ts.Lt(i, ts.Int(at.Len()))))
		el := VElem{heap: elemHeapKey(at.Elem()), arr: fx.embID(xv.ref, xv.key), idx: i, typ: at.Elem()}
		if strings.HasPrefix(xv.key, "global:") {
			name := strings.TrimPrefix(xv.key, "global:")
			if gi := fx.eng.globals[name]; gi != nil && gi.kind == "intarray" && !fx.eng.mutableGlobals[name] {
				el.tbl = name
			}
		}
		st.vals[ins] = el
	default:
		fx.unsupported(fmt.Sprintf("IndexAddr on %T", x))
		st.vals[ins] = fx.freshValueR("ia", ins.Type(), st, reach)
	}
	return reach
}

func (fx *FuncExec) execSlice(st *State, reach *Term, ins *ssa.Slice, src string) *Term {
	ts := fx.ts
	x := fx.valueOf(st, ins.X)
	var lo, hi, mx *Term
	if ins.Low != nil {
		lo = fx.valueOf(st, ins.Low).(VInt).t
	} else {
		lo = ts.Int(0)
	}
	if ins.High != nil {
		hi = fx.valueOf(st, ins.High).(VInt).t
	}
	if ins.Max != nil {
		mx = fx.valueOf(st, ins.Max).(VInt).t
	}
	switch xv := x.(type) {
	case VSlice:
		if hi == nil {
			hi = xv.len
		}
		limit := xv.cap
		if mx != nil {
			limit = mx
			reach = fx.safe(reach, "slice", src, ts.Le(mx, xv.cap))
		}
		reach = fx.safe(reach, "slice", src, ts.And(ts.Le(ts.Int(0), lo), ts.Le(lo, hi), ts.Le(hi, limit)))
		// slicing a nil slice keeps it nil
		st.vals[ins] = mkSlice(xv.arr, ts.Add(xv.off, lo), ts.Sub(hi, lo), ts.Sub(limit, lo), xv.elem)
	case VPtr:
		reach = fx.nilCheck(reach, x, src)
		at, ok := xv.typ.Underlying().(*types.Array)
		if !ok {
			fx.unsupported("Slice of pointer to " + typeKey(xv.typ))
			st.vals[ins] = fx.freshValueR("sl", ins.Type(), st, reach)
			return reach
		}
		n := ts.Int(at.Len())
		if hi == nil {
			hi = n
		}
		limit := n
		if mx != nil {
			limit = mx
			reach = fx.safe(reach, "slice", src, ts.Le(mx, n))
		}
		reach = fx.safe(reach, "slice", src, ts.And(ts.Le(ts.Int(0), lo), ts.Le(lo, hi), ts.Le(hi, limit)))
		st.vals[ins] = mkSlice(fx.embID(xv.ref, xv.key), lo, ts.Sub(hi, lo), ts.Sub(limit, lo), at.Elem())
	case VStr:
		n := fx.strLen(xv.id)
		if hi == nil {
			hi = n
		}
		reach = fx.safe(reach, "slice", src, ts.And(ts.Le(ts.Int(0), lo), ts.Le(lo, hi), ts.Le(hi, n)))
		id := ts.Fresh("substr", SInt)
		fx.addFact(reach, ts.Eq(fx.strLen(id), ts.Sub(hi, lo)))
		st.vals[ins] = VStr{id}
	default:
		fx.unsupported(fmt.Sprintf("Slice of %T", x))
		st.vals[ins] = fx.freshValueR("sl", ins.Type(), st, reach)
	}
	return reach
}

// globalValue gives the initial value of a package-level variable that is
// never assigned outside init and whose initializer the engine understands.
func (fx *FuncExec) globalValue(st *State, name string, t types.Type) Value {
	ts := fx.ts
	gi, ok := fx.eng.globals[name]
	if !ok || fx.eng.mutableGlobals[name] {
		return nil
	}
	switch gi.kind {
	case "bytes":
		sl, ok := t.Underlying().(*types.Slice)
		if !ok {
			return nil
		}
		id := ts.Int(-int64(gi.idx)*1024 - 1024)
		n := ts.Int(int64(len(gi.bytes)))
		hk := elemHeapKey(sl.Elem())
		arr := ts.Select(fx.heapGet(st, hk, SArr2), id)
		var cs []*Term
		for i := 0; i < len(gi.bytes); i++ {
			cs = append(cs, ts.Eq(ts.Select(arr, ts.Int(int64(i))), ts.Int(int64(gi.bytes[i]))))
		}
		fx.addFact(ts.True(), ts.And(cs...))
		return mkSlice(id, ts.Int(0), n, n, sl.Elem())
	case "ptrslice":
		sl, ok := t.Underlying().(*types.Slice)
		if !ok {
			return nil
		}
		pt, ok := sl.Elem().Underlying().(*types.Pointer)
		if !ok {
			return nil
		}
		id := ts.Int(-int64(gi.idx)*1024 - 1024)
		n := ts.Int(gi.code)
		hk := elemHeapKey(sl.Elem())
		arr := ts.Select(fx.heapGet(st, hk, SArr2), id)
		// element k is the object with the fixed reference 1000 + idx*200 + k (below every allocation counter),
		// whose key/value fields hold the literal strings
		var cs []*Term
		for k := 0; k < int(gi.code); k++ {
			ref := ts.Int(1000 + int64(gi.idx)*200 + int64(k))
			cs = append(cs, ts.Eq(ts.Select(arr, ts.Int(int64(k))), ref))
			if stt, ok := pt.Elem().Underlying().(*types.Struct); ok && k < len(gi.entries) {
				for fi := 0; fi < stt.NumFields() && fi < 2; fi++ {
					f := stt.Field(fi)
					if fsl, ok := f.Type().Underlying().(*types.Slice); ok && isByteLike(fsl.Elem()) {
						key := ptrKey(pt.Elem()) + "." + f.Name()
						str := gi.entries[k][fi]
						aid := ts.Int(-(int64(gi.idx)*4096+int64(k)*2+int64(fi))*1024 - 1024 - 1023)
						cs = append(cs, ts.Eq(ts.Select(fx.heapGet(st, key+"#arr", SArr), ref), aid),
							ts.Eq(ts.Select(fx.heapGet(st, key+"#off", SArr), ref), ts.Int(0)),
							ts.Eq(ts.Select(fx.heapGet(st, key+"#len", SArr), ref), ts.Int(int64(len(str)))),
							ts.Eq(ts.Select(fx.heapGet(st, key+"#cap", SArr), ref), ts.Int(int64(len(str)))))
						bh := ts.Select(fx.heapGet(st, elemHeapKey(fsl.Elem()), SArr2), aid)
						for ci := 0; ci < len(str); ci++ {
							cs = append(cs, ts.Eq(ts.Select(bh, ts.Int(int64(ci))), ts.Int(int64(str[ci]))))
						}
					}
				}
			}
		}
		fx.addFact(ts.True(), ts.And(cs...))
		return mkSlice(id, ts.Int(0), n, n, sl.Elem())
	case "errorsNew":
		if _, ok := t.Underlying().(*types.Interface); !ok {
			return nil
		}
		return VIface{ts.Int(int64(fx.eng.errorStringTypeID())), ts.Int(1000000 + int64(gi.idx))}
	case "Error":
		stt, ok := t.Underlying().(*types.Struct)
		if !ok || stt.NumFields() != 3 {
			return nil
		}
		return VStruct{t, []Value{VInt{ts.Int(gi.code)}, VInt{ts.Int(gi.frame)}, VStr{ts.Int(fx.eng.stringID(gi.msg))}}}
	}
	return nil
}

func allBasicFields(t types.Type) bool {
	st, ok := t.Underlying().(*types.Struct)
	if !ok {
		return false
	}
	for i := 0; i < st.NumFields(); i++ {
		if _, ok := st.Field(i).Type().Underlying().(*types.Basic); !ok {
			return false
		}
	}
	return true
}

// assumeChanInv assumes the declared invariant of a channel for a received value (non-nil values only).
func (fx *FuncExec) assumeChanInv(fn *ssa.Function, st *State, reach *Term, key string, v Value) {
	if key == "" {
		return
	}
	// key is like "serverConn.reader"
	for _, c := range fx.eng.cs.Chans[key] {
		env := &cenv{fx: fx, fn: fn, st: st, old: st, binds: map[string]Value{"self": v}, reach: reach, params: map[string]Value{}}
		if t, err := fx.evalClause(c, env); err == nil {
			guard := fx.ts.True()
			if p, ok := v.(VPtr); ok {
				guard = fx.ts.Ne(p.ref, fx.ts.Int(0))
			}
			fx.addFact(reach, fx.ts.Implies(guard, t))
			fx.note("channel invariant of " + key + " assumed for received values (proved where the channel is written, when that function is under contract)")
		} else {
			fx.unsupported("channel invariant of " + key + ": " + err.Error())
		}
	}
}

// assumeHeapInvariants: types with a declared `heapinvariant` keep it for every object in the heap (it is established
// where such objects are built, and nothing else writes them), so it is assumed for every pointer value met.
func (fx *FuncExec) assumeHeapInvariants(p VPtr, st *State, reach *Term) {
	ts := fx.ts
	v := p.ref
	invs := fx.eng.cs.HeapInvs[typeKey(p.typ)]
	if len(invs) == 0 || fx.invDepth != 0 || v.bound || fx.invSeen[v.id] || st == nil {
		return
	}
	fx.invSeen[v.id] = true
	fx.invDepth++
	for _, c := range invs {
		env := &cenv{fx: fx, st: st, old: st, binds: map[string]Value{"self": p}, reach: reach, params: map[string]Value{}}
		if t, err := fx.evalClause(c, env); err == nil {
			fx.addFact(reach, ts.Implies(ts.Ne(v, ts.Int(0)), t))
		}
	}
	fx.invDepth--
}
