package main

import (
	"go/token"
	"fmt"
	"go/types"
	"math/big"
	"sort"
	"strings"

	"golang.org/x/tools/go/ssa"
)

func (eng *Engine) newExec(fn *ssa.Function, con *Contract) *FuncExec {
	fx := &FuncExec{eng: eng, ts: NewTermStore(), fn: fn, con: con, ord: map[string]int{}, factSeen: map[int]bool{},
		params: map[string]Value{}, callCount: map[string]int{}}
	fx.loopHeads = map[loopKey]*loopHeadInfo{}
	fx.entries = map[*ssa.Function]*State{}
	fx.deferred = map[*ssa.Function][]deferRec{}
	fx.curDefer = map[*ssa.CallCommon]deferCall{}
	fx.nonNil = map[int]bool{}
	fx.loopAutos = map[*ssa.BasicBlock][]autoInv{}
	fx.anchorHit = map[string]bool{}
	fx.chanKey = map[int]string{}
	fx.loopPre = map[*ssa.BasicBlock]*State{}
	fx.invSeen = map[int]bool{}
	if con != nil {
		fx.wrapSigned = con.Opts["wrapsigned"] == "true" || con.Opts["wrapsigned"] == "1"
		fx.noSafety = con.NoSafety
	}
	return fx
}

type deferCall struct {
	args []Value
	fn   Value
}

// VerifyFunction generates every obligation for fn under its contract (which
// may be nil: then only the automatic safety obligations are produced).
func (eng *Engine) VerifyFunction(fn *ssa.Function, con *Contract) (fx *FuncExec, err error) {
	fx = eng.newExec(fn, con)
	defer func() {
		if r := recover(); r != nil {
			if ce, ok := r.(cerr); ok {
				err = fmt.Errorf("%s: %s", shortFuncName(fn), string(ce))
				return
			}
			panic(r)
		}
	}()
	ts := fx.ts
	st := NewState()
	reach := ts.True()
	// parameters: fresh symbolic inputs
	for _, p := range fn.Params {
		v := fx.freshValueR("p."+p.Name(), p.Type(), st, reach)
		st.vals[p] = v
		fx.params[p.Name()] = v
		fx.paramList = append(fx.paramList, p.Name())
		fx.inputs = append(fx.inputs, inputVar{p.Name(), v, p.Type()})
	}
	for _, fv := range fn.FreeVars {
		// closures verified on their own: captured variables live in heap cells
		et := fv.Type().(*types.Pointer).Elem()
		ref := ts.Fresh("fv."+fv.Name(), SInt)
		fx.ptrFacts(ref, st, reach)
		fx.addFact(reach, ts.Lt(ts.Int(0), ref))
		st.vals[fv] = VPtr{"fv:" + shortFuncName(fn.Parent()) + "." + fv.Name(), ref, et}
	}
	// references below 100000 are reserved for objects built by package initialisers (static table)
	fx.addFact(ts.True(), ts.mk("<=", SBool, ts.Int(100000), fx.heapGet(st, allocKey, SInt)))
	fx.entry = st.Clone()
	fx.entries[fn] = fx.entry
	env := func(s *State) *cenv {
		return &cenv{fx: fx, fn: fn, st: s, old: fx.entry, con: con, binds: map[string]Value{}, params: fx.params, reach: reach}
	}
	// type invariants of parameters and requires are assumed
	if con != nil {
		for _, c := range con.Requires {
			t, err := fx.evalClause(c, env(st))
			if err != nil {
				return fx, err
			}
			fx.addFact(reach, t)
			fx.rangesFrom(t)
		}
	}
	if con != nil {
		for _, g := range con.Ghosts {
			ge := env(st)
			ex, perr := parseCached(g.Expr)
			if perr != nil {
				return fx, perr
			}
			st.ghost["g:"+g.Label] = ge.eval(ex)
		}
		fx.entry = st.Clone()
		fx.entries[fn] = fx.entry
	}
	nreq := len(fx.facts)
	// vacuity cover: the preconditions are satisfiable
	if con != nil && len(con.Requires) > 0 {
		o := fx.addObl("cover", "requires", "preconditions must be satisfiable", reach, ts.False())
		o.ExpectSat = true
	}
	_ = nreq
	er, exit, results := fx.runBody(fn, st, reach, con)
	fx.exitReach, fx.exitState, fx.results = er, exit, results
	if er.isFalse() {
		return fx, nil
	}
	rets := fx.lastRets
	if con != nil {
		for _, a := range con.Anchors {
			if !fx.anchorHit[con.Func+"|"+a.Anchor+"/"+a.Label] {
				fx.addObl("shape", "anchor:"+a.Label, "anchor "+a.Anchor+" does not match any call in the function", er, ts.False())
			}
		}
		// anchors of the inline contracts of closures and helpers that were inlined
		for c := range fx.inlinedCons {
			for _, a := range c.Anchors {
				if !fx.anchorHit[c.Func+"|"+a.Anchor+"/"+a.Label] {
					fx.addObl("shape", "anchor:"+a.Label, "anchor "+a.Anchor+" of "+c.Func+" does not match any call in it", er, ts.False())
				}
			}
		}
	}
	if con != nil {
		pe := env(exit)
		pe.reach = er
		fx.bindResults(pe, fn, results)
		// case splits: conditions over the entry state
		type ccase struct {
			name string
			cond *Term
		}
		cases := []ccase{{"", ts.True()}}
		for _, sc := range con.Splits {
			t, err := fx.evalClause(sc, env(fx.entry))
			if err != nil {
				fx.addObl("shape", "split", err.Error(), er, ts.False())
				continue
			}
			var next []ccase
			for _, c := range cases {
				next = append(next, ccase{c.name + "1", ts.And(c.cond, t)}, ccase{c.name + "0", ts.And(c.cond, ts.Not(t))})
			}
			cases = next
		}
		// each `cases` directive is a group of alternatives; groups multiply
		for gi, raw := range con.Cases {
			var all []*Term
			var next []ccase
			i := 0
			for _, m := range splitTop(raw.Expr, ';') {
				if m = strings.TrimSpace(m); m == "" {
					continue
				}
				t, err := fx.evalClause(Clause{Label: "case", Expr: m, Line: raw.Line, File: raw.File}, env(fx.entry))
				if err != nil {
					fx.addObl("shape", "cases", err.Error(), er, ts.False())
					continue
				}
				all = append(all, t)
				for _, c := range cases {
					next = append(next, ccase{fmt.Sprintf("%s.%d", c.name, i), ts.And(c.cond, t)})
				}
				i++
			}
			cases = next
			fx.addObl("post", fmt.Sprintf("cases-exhaustive%d", gi), "the listed cases cover every input", er, ts.Or(all...))
		}
		// opt chain=true: a postcondition may use the ones listed before it as lemmas (all of them
		// have to be proved for the function to pass, so this is the usual proof of a conjunction)
		chain := con.Opts["chain"] == "true"
		// opt perreturn=true: prove each postcondition separately on every return path (no merged exit state)
		perRet := con.Opts["perreturn"] == "true" && len(rets) > 1
		type site struct {
			name  string
			reach *Term
			env   *cenv
		}
		sites := []site{{"", er, pe}}
		if perRet {
			sites = nil
			for i, r := range rets {
				e := env(r.state)
				e.reach = r.reach
				fx.bindResults(e, fn, r.vals)
				sites = append(sites, site{fmt.Sprintf("|ret%d", i), r.reach, e})
			}
		}
		// preconditions of callees and safety obligations inside the body are split by the same cases,
		// adaptively: the whole obligation is tried first
		if len(cases) > 1 {
			for _, o := range fx.obls {
				if o.Status != "" || o.ExpectSat || len(o.Sub) > 0 || (o.Kind != "pre" && o.Kind != "safe" && o.Kind != "ovf") {
					continue
				}
				for _, cs := range cases {
					g := ts.Implies(cs.cond, o.Goal)
					sub := &Obligation{Name: o.Name + "|case" + cs.name, Kind: o.Kind, Func: o.Func, Label: o.Label + "|case" + cs.name,
						Goal: g, NFacts: o.NFacts, fx: fx, Src: o.Src, Props: o.Props}
					if g.isTrue() {
						sub.Status, sub.Solver = "proved", "simplifier"
					}
					o.Sub = append(o.Sub, sub)
				}
			}
		}
		provedAt := make([][]*Term, len(sites))
		for _, c := range con.Ensures {
			var subs []*Obligation
			var whole *Term
			failed := false
			for si, stt := range sites {
				t, err := fx.evalClause(c, stt.env)
				if err != nil {
					fx.addObl("shape", "post:"+c.Label, err.Error(), er, ts.False())
					failed = true
					break
				}
				base := stt.reach
				if chain {
					base = ts.And(append([]*Term{stt.reach}, provedAt[si]...)...)
				}
				provedAt[si] = append(provedAt[si], t)
				if !perRet {
					whole = ts.Implies(base, t)
				}
				for _, cs := range cases {
					if cs.name == "" && !perRet {
						continue
					}
					g := ts.Implies(ts.And(base, cs.cond), t)
					nm := c.Label + stt.name
					if cs.name != "" {
						nm += "|case" + cs.name
					}
					sub := &Obligation{Name: fx.eng.topName(fn) + "/post:" + nm, Kind: "post", Func: fx.eng.topName(fn), Label: nm,
						Goal: g, NFacts: len(fx.facts), fx: fx, Src: c.Expr, Props: con.Props}
					if g.isTrue() {
						sub.Status, sub.Solver = "proved", "simplifier"
					}
					subs = append(subs, sub)
				}
			}
			if failed {
				continue
			}
			if whole == nil {
				whole = ts.False() // per-return mode: the parent only aggregates
			}
			parent := fx.addObl("post", c.Label, c.Expr, ts.True(), whole)
			if parent != nil && len(subs) > 0 {
				if perRet {
					parent.Status, parent.OnlySubs = "", true
				}
				if parent.Status == "" {
					parent.Sub = subs
				}
			}
		}
		fx.frameObligations(fn, con, er, exit)
		// canary: the exit must be reachable (contradictory assumptions would prove false)
		o := fx.addObl("canary", "exit", "assert false at function exit must be refuted", er, ts.False())
		o.ExpectSat = true
	}
	return fx, nil
}

func (fx *FuncExec) bindResults(e *cenv, fn *ssa.Function, results []Value) {
	res := fn.Signature.Results()
	for i, v := range results {
		e.binds[fmt.Sprintf("r%d", i)] = v
		if i < res.Len() && res.At(i).Name() != "" && res.At(i).Name() != "_" {
			e.binds[res.At(i).Name()] = v
		}
	}
	if len(results) == 1 {
		e.binds["result"] = results[0]
	}
}

func (fx *FuncExec) paramsFor(fn *ssa.Function) map[string]Value {
	if fn == fx.fn || fn == nil {
		return fx.params
	}
	// inlined callee: parameters as bound at the inline site
	m := map[string]Value{}
	if st, ok := fx.entries[fn]; ok {
		for _, p := range fn.Params {
			if v, ok := st.vals[p]; ok {
				m[p.Name()] = v
			}
		}
	}
	return m
}

func (fx *FuncExec) cellByName(fn *ssa.Function, name string) *ssa.Alloc {
	want := name
	ord := 0
	if i := strings.Index(name, "#"); i >= 0 {
		want = name[:i]
		fmt.Sscanf(name[i+1:], "%d", &ord)
	}
	var found []*ssa.Alloc
	for _, b := range fn.Blocks {
		for _, in := range b.Instrs {
			if a, ok := in.(*ssa.Alloc); ok && a.Comment == want && fx.isCell(a) {
				found = append(found, a)
			}
		}
	}
	if len(found) == 0 {
		return nil
	}
	sort.Slice(found, func(i, j int) bool { return found[i].Pos() < found[j].Pos() })
	if ord < len(found) {
		return found[ord]
	}
	return nil
}

// ---------- frames ----------

// location: one modifiable place named by a modifies clause.
type location struct {
	key   string // heap key prefix (field family) or element heap key
	ref   *Term  // object ref, or array id for element heaps
	typ   types.Type
	elems bool
	off   *Term // element window [off, off+n) for elems
	n     *Term
}

// window is a writable index range of one backing array.
type window struct{ arr, off, n *Term }

func (fx *FuncExec) evalModifies(con *Contract, env *cenv) (locs []location, err error) {
	defer func() {
		if r := recover(); r != nil {
			if ce, ok := r.(cerr); ok {
				err = fmt.Errorf("%s: modifies: %s", con.Func, string(ce))
				return
			}
			panic(r)
		}
	}()
	if env.params == nil {
		env.params = fx.paramsFor(env.fn)
	}
	if env.reach == nil {
		env.reach = fx.ts.True()
	}
	for _, m := range con.Modifies {
		ex, perr := parseCached(m)
		if perr != nil {
			return nil, perr
		}
		switch {
		case ex.Kind == "call" && ex.Args[0].Kind == "ident" && (ex.Args[0].Name == "contents" || ex.Args[0].Name == "capacity"):
			// contents(s): elements s[0:len(s)]; capacity(s): elements s[0:cap(s)] (what append may write)
			v := env.eval(ex.Args[1])
			s, ok := v.(VSlice)
			if !ok {
				cfail("%s(%s): not a slice", ex.Args[0].Name, ex.Args[1].String())
			}
			n := s.len
			if ex.Args[0].Name == "capacity" {
				n = s.cap
			}
			locs = append(locs, location{key: elemHeapKey(s.elem), ref: s.arr, elems: true, off: s.off, n: n})
		case ex.Kind == "call" && ex.Args[0].Kind == "ident" && ex.Args[0].Name == "family":
			// family(T): any field of any object of struct type T (and the arrays those fields point to are NOT included)
			if ex.Args[1].Kind != "ident" {
				cfail("family needs a type name")
			}
			locs = append(locs, location{key: "family:" + ex.Args[1].Name, typ: fx.eng.namedType(ex.Args[1].Name)})
		case ex.Kind == "call" && ex.Args[0].Kind == "ident" && ex.Args[0].Name == "anybytes":
			// anybytes(): contents of any byte array (coarse frame for functions that recycle buffers)
			locs = append(locs, location{key: "anyelems:elem:byte"})
		case ex.Kind == "unary" && ex.Op == "*":
			v := env.eval(ex.Args[0])
			p, ok := v.(VPtr)
			if !ok {
				cfail("*%s: not a pointer", ex.Args[0].String())
			}
			locs = append(locs, location{key: p.key, ref: p.ref, typ: p.typ})
		case ex.Kind == "sel":
			v := env.eval(ex.Args[0])
			p, ok := v.(VPtr)
			if !ok {
				cfail("%s: not a pointer", ex.Args[0].String())
			}
			st, ok := p.typ.Underlying().(*types.Struct)
			if !ok {
				cfail("%s: not a struct pointer", ex.Args[0].String())
			}
			var ft types.Type
			for i := 0; i < st.NumFields(); i++ {
				if st.Field(i).Name() == ex.Name {
					ft = st.Field(i).Type()
				}
			}
			if ft == nil {
				cfail("no field %s", ex.Name)
			}
			locs = append(locs, location{key: p.key + "." + ex.Name, ref: p.ref, typ: ft})
		default:
			cfail("unsupported modifies target %s", m)
		}
	}
	return locs, nil
}

// leafKeys enumerates the heap arrays that make up a location of type t at key.
func (fx *FuncExec) leafKeys(key string, t types.Type, ref *Term) (fields []struct{ key, sort string }, embedded []struct {
	heap string
	id   *Term
}) {
	switch u := t.Underlying().(type) {
	case *types.Struct:
		for i := 0; i < u.NumFields(); i++ {
			f, e := fx.leafKeys(key+"."+u.Field(i).Name(), u.Field(i).Type(), ref)
			fields = append(fields, f...)
			embedded = append(embedded, e...)
		}
	case *types.Slice:
		for _, s := range []string{"#arr", "#off", "#len", "#cap"} {
			fields = append(fields, struct{ key, sort string }{key + s, SArr})
		}
	case *types.Interface:
		for _, s := range []string{"#tag", "#val"} {
			fields = append(fields, struct{ key, sort string }{key + s, SArr})
		}
	case *types.Array:
		if intRepresentable(u.Elem()) {
			embedded = append(embedded, struct {
				heap string
				id   *Term
			}{elemHeapKey(u.Elem()), fx.embID(ref, key)})
		}
	case *types.Basic:
		if u.Info()&types.IsBoolean != 0 {
			fields = append(fields, struct{ key, sort string }{key, SArrB})
		} else {
			fields = append(fields, struct{ key, sort string }{key, SArr})
		}
	default:
		fields = append(fields, struct{ key, sort string }{key, SArr})
	}
	return
}

// frameObligations: every heap array the body wrote agrees with its entry value
// outside the locations named by `modifies` (objects allocated by the body are
// exempt).
// frameSpec is the function's `modifies` clause evaluated in the entry state.
type frameSpec struct {
	allowed map[string][]*Term // field array key -> refs that may change
	wins    map[string][]window
	exempt  map[string]bool
	err     error
}

func (fx *FuncExec) frameSpecFor(fn *ssa.Function, con *Contract) *frameSpec {
	if fx.frames == nil {
		fx.frames = map[*ssa.Function]*frameSpec{}
	}
	if fs, ok := fx.frames[fn]; ok {
		return fs
	}
	ts := fx.ts
	fs := &frameSpec{allowed: map[string][]*Term{}, wins: map[string][]window{}, exempt: map[string]bool{}}
	fx.frames[fn] = fs
	env := &cenv{fx: fx, fn: fn, st: fx.entry, old: fx.entry, con: con, binds: map[string]Value{}, params: fx.params, reach: ts.True()}
	locs, err := fx.evalModifies(con, env)
	if err != nil {
		fs.err = err
		return fs
	}
	for _, l := range locs {
		if strings.HasPrefix(l.key, "family:") {
			f, _ := fx.leafKeys(ptrKey(l.typ), l.typ, ts.Int(0))
			for _, k := range f {
				fs.exempt[k.key] = true
			}
			continue
		}
		if strings.HasPrefix(l.key, "anyelems:") {
			fs.exempt[strings.TrimPrefix(l.key, "anyelems:")] = true
			continue
		}
		if l.elems {
			fs.wins[l.key] = append(fs.wins[l.key], window{l.ref, l.off, l.n})
			continue
		}
		f, e := fx.leafKeys(l.key, l.typ, l.ref)
		for _, k := range f {
			fs.allowed[k.key] = append(fs.allowed[k.key], l.ref)
		}
		for _, k := range e {
			fs.wins[k.heap] = append(fs.wins[k.heap], window{k.id, nil, nil})
		}
	}
	return fs
}

// frameFormula says that heap array k, with current value cur, agrees with the function's entry value outside
// the locations named by `modifies`, for every object / backing array that existed at entry.
func (fx *FuncExec) frameFormula(fs *frameSpec, k string, cur *Term) *Term {
	ts := fx.ts
	srt := fx.eng.heapSorts[k]
	h0 := ts.Var("H0!"+k, srt)
	alloc0 := fx.heapGet(fx.entry, allocKey, SInt)
	r := ts.Bound("r", SInt)
	conds := []*Term{ts.Lt(r, alloc0)}
	if srt == SArr2 {
		// arrays embedded in objects allocated by the body are new as well
		conds = append(conds, ts.Lt(ts.Neg(ts.Mul(alloc0, ts.Int(1024))), ts.Add(r, ts.Int(1))))
		j := ts.Bound("j", SInt)
		for _, w := range fs.wins[k] {
			if w.off == nil {
				conds = append(conds, ts.Ne(r, w.arr))
			} else {
				conds = append(conds, ts.Not(ts.And(ts.Eq(r, w.arr), ts.Le(w.off, j), ts.Lt(j, ts.Add(w.off, w.n)))))
			}
		}
		return ts.Forall([]*Term{r, j}, ts.Implies(ts.And(conds...), ts.Eq(ts.Select(ts.Select(cur, r), j), ts.Select(ts.Select(h0, r), j))),
			ts.Select(ts.Select(cur, r), j))
	}
	for _, a := range fs.allowed[k] {
		conds = append(conds, ts.Ne(r, a))
	}
	return ts.Forall([]*Term{r}, ts.Implies(ts.And(conds...), ts.Eq(ts.Select(cur, r), ts.Select(h0, r))), ts.Select(cur, r))
}

// frameObligations: every heap array the body wrote agrees with its entry value outside the locations named by
// `modifies` (objects allocated by the body are exempt).
func (fx *FuncExec) frameObligations(fn *ssa.Function, con *Contract, reach *Term, exit *State) {
	ts := fx.ts
	if con.Opts["noframe"] != "" {
		return
	}
	fs := fx.frameSpecFor(fn, con)
	if fs.err != nil {
		fx.addObl("shape", "modifies", fs.err.Error(), reach, ts.False())
		return
	}
	keys := make([]string, 0, len(exit.heap))
	for k := range exit.heap {
		keys = append(keys, k)
	}
	sort.Strings(keys)
	for _, k := range keys {
		if k == allocKey || strings.HasPrefix(k, "box:") {
			continue
		}
		cur := exit.heap[k]
		srt := fx.eng.heapSorts[k]
		h0 := ts.Var("H0!"+k, srt)
		if cur == h0 || fs.exempt[k] {
			continue
		}
		fx.addObl("frame", k, "only the locations named by modifies may change", reach, fx.frameFormula(fs, k, cur))
	}
}

// applyContract uses callee's contract at a call site.
func (fx *FuncExec) applyContract(st *State, reach *Term, callee *ssa.Function, con *Contract, args []Value, resType types.Type, src string) (*Term, Value) {
	params := map[string]Value{}
	for i, p := range callee.Params {
		if i < len(args) {
			params[p.Name()] = args[i]
		}
	}
	return fx.applyContractCore(st, reach, callee, callee.Signature, con, params, resType, src)
}

// applyContractSig applies a stub contract for an interface method (no ssa.Function).
func (fx *FuncExec) applyContractSig(st *State, reach *Term, con *Contract, sig *types.Signature, params map[string]Value, resType types.Type, src string) (*Term, Value) {
	return fx.applyContractCore(st, reach, nil, sig, con, params, resType, src)
}

func (fx *FuncExec) applyContractCore(st *State, reach *Term, callee *ssa.Function, sig *types.Signature, con *Contract, params map[string]Value, resType types.Type, src string) (*Term, Value) {
	ts := fx.ts
	pre := st.Clone()
	mk := func(s *State) *cenv {
		return &cenv{fx: fx, fn: callee, st: s, old: pre, con: con, binds: map[string]Value{}, params: params, reach: reach}
	}
	fx.callCount[con.Func]++
	// ghost call counter, readable in contracts as called(<function>)
	gk := "calls:" + normFuncName(con.Func)
	cnt := ts.Int(0)
	if v, ok := st.ghost[gk].(VInt); ok {
		cnt = v.t
	}
	st.ghost[gk] = VInt{ts.Add(cnt, ts.Int(1))}
	for _, c := range con.Requires {
		t, err := fx.evalClause(c, mk(st))
		if err != nil {
			fx.addObl("shape", "pre:"+c.Label, err.Error(), reach, ts.False())
			continue
		}
		fx.addObl("pre", con.Func+":"+c.Label, src+": "+c.Expr, reach, t)
		reach2 := ts.And(reach, t)
		_ = reach2
	}
	// havoc the frame
	locs, err := fx.evalModifies(con, mk(pre))
	if err != nil {
		fx.addObl("shape", "modifies:"+con.Func, err.Error(), reach, ts.False())
	}
	for _, l := range locs {
		if strings.HasPrefix(l.key, "family:") {
			f, _ := fx.leafKeys(ptrKey(l.typ), l.typ, ts.Int(0))
			for _, k := range f {
				fx.heapSet(st, k.key, ts.Fresh("mod."+k.key, k.sort))
			}
			continue
		}
		if strings.HasPrefix(l.key, "anyelems:") {
			hk := strings.TrimPrefix(l.key, "anyelems:")
			fx.heapSet(st, hk, ts.Fresh("mod."+hk, SArr2))
			continue
		}
		if l.elems {
			fx.havocWindow(st, reach, l.key, l.ref, l.off, l.n)
			continue
		}
		f, e := fx.leafKeys(l.key, l.typ, l.ref)
		for _, k := range f {
			es := elemSort(k.sort)
			fx.heapSet(st, k.key, ts.Store(fx.heapGet(st, k.key, k.sort), l.ref, ts.Fresh("mod."+k.key, es)))
		}
		for _, k := range e {
			h := fx.heapGet(st, k.heap, SArr2)
			fx.heapSet(st, k.heap, ts.Store(h, k.id, ts.Fresh("mod."+k.heap, SArr)))
		}
	}
	// the callee may allocate
	if !con.Pure {
		old := fx.heapGet(st, allocKey, SInt)
		nw := ts.Fresh("alloc.c", SInt)
		fx.addFact(reach, ts.Le(old, nw))
		fx.heapSet(st, allocKey, nw)
		// objects allocated by the callee: their contents are whatever the callee left; element heaps above
		// the old counter are unconstrained
		for _, hk := range fx.elemHeapsTouched(locs) {
			_ = hk
		}
	}
	// results
	var rv Value
	var results []Value
	sigRes := sig.Results()
	for i := 0; i < sigRes.Len(); i++ {
		results = append(results, fx.freshValueR(fmt.Sprintf("ret.%s.%d", sanitize(con.Func), i), sigRes.At(i).Type(), st, reach))
	}
	post := mk(st)
	// the callee's ghost variables are unknown to the caller
	for _, g := range con.Ghosts {
		func() {
			defer func() { _ = recover() }()
			ex, perr := parseCached(g.Expr)
			if perr != nil {
				return
			}
			switch mk(pre).eval(ex).(type) {
			case VBool:
				post.binds[g.Label] = VBool{ts.Fresh("ghost."+g.Label, SBool)}
			default:
				post.binds[g.Label] = VInt{ts.Fresh("ghost."+g.Label, SInt)}
			}
		}()
	}
	for i, v := range results {
		post.binds[fmt.Sprintf("r%d", i)] = v
		if i < sigRes.Len() && sigRes.At(i).Name() != "" && sigRes.At(i).Name() != "_" {
			post.binds[sigRes.At(i).Name()] = v
		}
	}
	if len(results) == 1 {
		post.binds["result"] = results[0]
	}
	for _, c := range con.Ensures {
		t, err := fx.evalClause(c, post)
		if err != nil {
			fx.addObl("shape", "post:"+con.Func+":"+c.Label, err.Error(), reach, ts.False())
			continue
		}
		fx.addFact(reach, t)
	}
	switch len(results) {
	case 0:
		rv = VTuple{nil}
	case 1:
		rv = results[0]
	default:
		rv = VTuple{results}
	}
	return reach, rv
}

func (fx *FuncExec) elemHeapsTouched(locs []location) []string { return nil }

// ---------- intrinsics (trusted models of a few external operations) ----------

func (fx *FuncExec) intrinsic(st *State, reach *Term, callee *ssa.Function, name string, args []Value, resType types.Type, src string) (*Term, Value, bool) {
	switch name {
	case "(*sync.Pool).Get":
		// trusted: a pool hands out an object nobody else owns, of the type its New returns,
		// with arbitrary field contents
		p, ok := args[0].(VPtr)
		if !ok {
			return reach, nil, false
		}
		pt := fx.eng.poolType(p.key, st, fx)
		if p.key == "pool:frame" {
			pt = &poolInfo{frameIdx: p.ref}
		}
		if pt == nil {
			fx.note("sync.Pool.Get on a pool with no declared type: result is an arbitrary interface")
			return reach, fx.freshValueR("pool", resType, st, reach), true
		}
		if pt.frameIdx != nil {
			// framePools[k]: type depends on k
			return fx.frameFromPool(st, reach, pt.frameIdx, resType)
		}
		return reach, fx.pooledObject(st, reach, pt.typ), true
	case "(*sync.Pool).Put":
		return reach, VTuple{nil}, true
	case "(*sync.Mutex).Lock", "(*sync.RWMutex).Lock", "(*sync.RWMutex).RLock":
		// another goroutine may have changed the fields this lock guards: forget them
		if p, ok := args[0].(VPtr); ok {
			for _, k := range fx.eng.cs.Guarded[p.key] {
				if srt, ok := fx.eng.heapSorts[k]; ok {
					fx.heapSet(st, k, fx.ts.Fresh("locked."+k, srt))
				} else {
					fx.heapSet(st, k, fx.ts.Fresh("locked."+k, SArr))
				}
			}
			if len(fx.eng.cs.Guarded[p.key]) > 0 {
				fx.note("taking " + p.key + " forgets the fields it guards (interference by other goroutines)")
			}
		}
		return reach, VTuple{nil}, true
	case "(*sync.Mutex).Unlock", "(*sync.RWMutex).Unlock", "(*sync.RWMutex).RUnlock":
		return reach, VTuple{nil}, true
	}
	switch name {
	case "errors.As":
		// errors.As(err, &target) for target of this package's Error type: the package never wraps errors, so the
		// chain is err itself (trusted model of the standard library function)
		if len(args) == 2 {
			tp, ok := args[1].(VPtr)
			if tv, isI := args[1].(VIface); isI && tv.tag.isInt() {
				// the target arrives boxed in an `any`
				if pt, ok2 := fx.eng.typeByID[int(tv.tag.ival.Int64())].(*types.Pointer); ok2 {
					tp, ok = VPtr{ptrKey(pt.Elem()), tv.val, pt.Elem()}, true
				}
			}
			if ok {
				if n, ok := tp.typ.(*types.Named); ok && n.Obj().Name() == "Error" && fx.eng.inPackageType(n) {
					iv, ok := args[0].(VIface)
					if ok {
						ts := fx.ts
						is := ts.Eq(iv.tag, ts.Int(int64(fx.eng.typeID(tp.typ))))
						val := fx.unbox(st, reach, iv, tp.typ)
						cur := fx.load(st, reach, tp, tp.typ)
						fx.store(st, reach, tp, fx.iteValue(is, val, cur, tp.typ), tp.typ)
						return reach, VBool{is}, true
					}
				}
			}
		}
	case "errors.Is":
		if len(args) == 2 {
			a, ok1 := args[0].(VIface)
			b, ok2 := args[1].(VIface)
			if ok1 && ok2 {
				ts := fx.ts
				eq := fx.ifaceEq(st, reach, a, b)
				known := ts.Or(ts.Eq(a.tag, ts.Int(int64(fx.eng.typeID(fx.eng.namedType("Error"))))),
					ts.Eq(a.tag, ts.Int(int64(fx.eng.errorStringTypeID()))), ts.Eq(a.tag, ts.Int(0)))
				// errors of this package are never wrapped and their Is methods only match error codes
				codeTarget := ts.Eq(b.tag, ts.Int(int64(fx.eng.typeID(fx.eng.namedType("ErrorCode")))))
				other := ts.And(ts.Or(ts.Not(known), codeTarget), ts.Ne(a.tag, ts.Int(0)), ts.Fresh("errors.Is", SBool))
				return reach, VBool{ts.Or(eq, other)}, true
			}
		}
	}
	// sync/atomic on plain integer fields: sequential semantics (interference by other goroutines is not modelled)
	if strings.HasPrefix(name, "atomic.") && len(args) >= 1 {
		op := strings.TrimPrefix(name, "atomic.")
		var et types.Type
		if p, ok := callee.Signature.Params().At(0).Type().Underlying().(*types.Pointer); ok {
			et = p.Elem()
		}
		it, isInt := IntTy{}, false
		if et != nil {
			it, isInt = intTyOf(et)
		}
		if isInt {
			fx.note("sync/atomic operations are modelled as plain sequential reads and writes")
			switch {
			case strings.HasPrefix(op, "Load"):
				reach = fx.nilCheck(reach, args[0], src)
				return reach, fx.load(st, reach, args[0], et), true
			case strings.HasPrefix(op, "Store") && len(args) == 2:
				reach = fx.nilCheck(reach, args[0], src)
				fx.store(st, reach, args[0], args[1], et)
				return reach, VTuple{nil}, true
			case strings.HasPrefix(op, "Add") && len(args) == 2:
				reach = fx.nilCheck(reach, args[0], src)
				cur := fx.load(st, reach, args[0], et).(VInt)
				nv := fx.ts.Wrap(it, fx.ts.Add(cur.t, args[1].(VInt).t))
				fx.store(st, reach, args[0], VInt{nv}, et)
				return reach, VInt{nv}, true
			case strings.HasPrefix(op, "CompareAndSwap") && len(args) == 3:
				reach = fx.nilCheck(reach, args[0], src)
				cur := fx.load(st, reach, args[0], et).(VInt)
				eq := fx.ts.Eq(cur.t, args[1].(VInt).t)
				fx.store(st, reach, args[0], VInt{fx.ts.Ite(eq, args[2].(VInt).t, cur.t)}, et)
				return reach, VBool{eq}, true
			case strings.HasPrefix(op, "Swap") && len(args) == 2:
				reach = fx.nilCheck(reach, args[0], src)
				cur := fx.load(st, reach, args[0], et)
				fx.store(st, reach, args[0], args[1], et)
				return reach, cur, true
			}
		}
	}
	return reach, nil, false
}

type poolInfo struct {
	typ      types.Type
	frameIdx *Term
}

// poolType maps the address of a pool to the concrete type it holds.
func (eng *Engine) poolType(key string, st *State, fx *FuncExec) *poolInfo {
	for _, ps := range eng.cs.Pools {
		if key == "global:"+ps.Global {
			t := eng.parseTypeName(ps.Type)
			if t != nil {
				return &poolInfo{typ: t}
			}
		}
	}
	return nil
}

func (eng *Engine) parseTypeName(s string) types.Type {
	ptr := 0
	for strings.HasPrefix(s, "*") {
		ptr++
		s = s[1:]
	}
	var t types.Type
	if strings.HasPrefix(s, "[]") {
		el := eng.parseTypeName(s[2:])
		if el == nil {
			return nil
		}
		t = types.NewSlice(el)
	} else if b := basicTypeByName(s); b != nil {
		t = b
	} else if o := eng.mainPkg.Pkg.Scope().Lookup(s); o != nil {
		t = o.Type()
	} else if pk, name, ok := strings.Cut(s, "."); ok {
		// a type of an imported package, e.g. fasthttp.RequestCtx
		for _, imp := range eng.mainPkg.Pkg.Imports() {
			if imp.Name() == pk {
				if o := imp.Scope().Lookup(name); o != nil {
					t = o.Type()
				}
			}
		}
		if t == nil {
			return nil
		}
	} else {
		return nil
	}
	for ; ptr > 0; ptr-- {
		t = types.NewPointer(t)
	}
	return t
}

// pooledObject allocates an object of pointer type pt with arbitrary contents.
func (fx *FuncExec) pooledObject(st *State, reach *Term, pt types.Type) Value {
	ts := fx.ts
	p, ok := pt.Underlying().(*types.Pointer)
	if !ok {
		return fx.freshValueR("pool", pt, st, reach)
	}
	ref := fx.alloc(st)
	// arbitrary field contents
	f, e := fx.leafKeys(ptrKey(p.Elem()), p.Elem(), ref)
	if _, isStruct := p.Elem().Underlying().(*types.Struct); !isStruct {
		f, e = fx.leafKeys(ptrKey(p.Elem()), p.Elem(), ref)
	}
	for _, k := range f {
		var v *Term
		if strings.HasSuffix(k.key, "#arr") {
			// buffers of a recycled object are not shared with any live object: model them as new arrays
			v = fx.alloc(st)
		} else {
			v = ts.Fresh("pool."+k.key, elemSort(k.sort))
		}
		fx.heapSet(st, k.key, ts.Store(fx.heapGet(st, k.key, k.sort), ref, v))
	}
	for _, k := range e {
		h := fx.heapGet(st, k.heap, SArr2)
		fx.heapSet(st, k.heap, ts.Store(h, k.id, ts.Fresh("pool."+k.heap, SArr)))
	}
	// slices held by a recycled object are well formed and its arrays are not shared with live objects:
	// well-formedness is recorded when the fields are loaded.
	id := fx.eng.typeID(pt)
	return VIface{ts.Int(int64(id)), ref}
}

func (fx *FuncExec) frameFromPool(st *State, reach *Term, idx *Term, resType types.Type) (*Term, Value, bool) {
	ts := fx.ts
	kinds := []string{"Data", "Headers", "Priority", "RstStream", "Settings", "PushPromise", "Ping", "GoAway", "WindowUpdate", "Continuation"}
	var conds []*Term
	var sts []*State
	var vals []Value
	for k, n := range kinds {
		c := ts.Eq(idx, ts.Int(int64(k)))
		if ts.And(reach, c).isFalse() {
			continue
		}
		s2 := st.Clone()
		v := fx.pooledObject(s2, ts.And(reach, c), types.NewPointer(fx.eng.namedType(n)))
		conds = append(conds, c)
		sts = append(sts, s2)
		vals = append(vals, v)
	}
	merged := fx.mergeStates(conds, sts)
	*st = *merged
	return reach, fx.mergeValues(conds, vals, resType), true
}

// havocWindow forgets elements [off, off+n) of array arr in element heap hk.
func (fx *FuncExec) havocWindow(st *State, reach *Term, hk string, arr, off, n *Term) {
	ts := fx.ts
	h := fx.heapGet(st, hk, SArr2)
	old := ts.Select(h, arr)
	nw := ts.Fresh("mod."+hk, SArr)
	j := ts.Bound("j", SInt)
	fx.addFact(reach, ts.Forall([]*Term{j},
		ts.Implies(ts.Or(ts.Lt(j, off), ts.Le(ts.Add(off, n), j)), ts.Eq(ts.Select(nw, j), ts.Select(old, j))),
		ts.Select(nw, j)))
	fx.heapSet(st, hk, ts.Store(h, arr, nw))
}

// rangesFrom records constant bounds on variables stated by a precondition
// (conjuncts of the form c <= x, x <= c, x < c) as structural ranges.
func (fx *FuncExec) rangesFrom(t *Term) {
	ts := fx.ts
	var cs []*Term
	if t.op == "and" {
		cs = t.args
	} else {
		cs = []*Term{t}
	}
	for _, c := range cs {
		if (c.op != "<=" && c.op != "<") || len(c.args) != 2 {
			continue
		}
		a, b := c.args[0], c.args[1]
		strict := c.op == "<"
		switch {
		case a.isInt() && b.op == "var":
			lo := new(big.Int).Set(a.ival)
			if strict {
				lo.Add(lo, bigOne)
			}
			if b.lo == nil || b.lo.Cmp(lo) < 0 {
				b.lo = lo
			}
		case b.isInt() && a.op == "var":
			hi := new(big.Int).Set(b.ival)
			if strict {
				hi.Sub(hi, bigOne)
			}
			if a.hi == nil || a.hi.Cmp(hi) > 0 {
				a.hi = hi
			}
		}
	}
	_ = ts
}

// specPrelude is the text of the spec files whose functions this function's VCs use.
func (fx *FuncExec) specPrelude() string {
	var sb strings.Builder
	var tn []string
	for t := range fx.tables {
		tn = append(tn, t)
	}
	sort.Strings(tn)
	for _, t := range tn {
		sb.WriteString(fx.eng.tablePrelude(t))
	}
	for _, f := range fx.eng.specOrder {
		if fx.specUsed[f] {
			sb.WriteString(fx.eng.specFiles[f])
		}
	}
	return sb.String()
}

func normFuncName(s string) string {
	return strings.NewReplacer("(", "", ")", "", "*", "", " ", "").Replace(s)
}

// heapLocalByName finds a local variable of fn that is heap allocated (captured by a closure or address-taken).
func (fx *FuncExec) heapLocalByName(fn *ssa.Function, name string) *ssa.Alloc {
	var found *ssa.Alloc
	for _, b := range fn.Blocks {
		for _, in := range b.Instrs {
			if a, ok := in.(*ssa.Alloc); ok && a.Comment == name && !fx.isCell(a) {
				if found == nil || a.Pos() < found.Pos() {
					found = a
				}
			}
		}
	}
	return found
}

// allocInScope resolves a local variable name the way the compiler would at source position pos: the innermost
// declaration visible there. Returns nil when pos is unknown or the name is not a local of fn.
func (fx *FuncExec) allocInScope(fn *ssa.Function, name string, pos token.Pos) *ssa.Alloc {
	if !pos.IsValid() || fn.Pkg == nil || strings.Contains(name, "#") {
		return nil
	}
	sc := fn.Pkg.Pkg.Scope().Innermost(pos)
	if sc == nil {
		return nil
	}
	_, obj := sc.LookupParent(name, pos)
	if obj == nil || !obj.Pos().IsValid() {
		return nil
	}
	for _, b := range fn.Blocks {
		for _, in := range b.Instrs {
			if a, ok := in.(*ssa.Alloc); ok && a.Comment == name && a.Pos() == obj.Pos() {
				return a
			}
		}
	}
	return nil
}
