package main

// Go integer semantics over SMT Int ("int mode"). Every Go integer value is a
// mathematical Int constrained to its type's range; operations wrap exactly as
// the Go specification says, except that signed + - * are modelled
// mathematically and produce an explicit no-overflow obligation (ovf) unless the
// function asks for wrapping signed arithmetic.

import (
	"go/token"
	"go/types"
	"math/big"
)

type IntTy struct {
	bits   uint
	signed bool
}

func intTyOf(t types.Type) (IntTy, bool) {
	b, ok := t.Underlying().(*types.Basic)
	if !ok {
		return IntTy{}, false
	}
	switch b.Kind() {
	case types.Int, types.Int64, types.UntypedInt, types.UntypedRune:
		return IntTy{64, true}, true
	case types.Int32:
		return IntTy{32, true}, true
	case types.Int16:
		return IntTy{16, true}, true
	case types.Int8:
		return IntTy{8, true}, true
	case types.Uint, types.Uint64, types.Uintptr:
		return IntTy{64, false}, true
	case types.Uint32:
		return IntTy{32, false}, true
	case types.Uint16:
		return IntTy{16, false}, true
	case types.Uint8:
		return IntTy{8, false}, true
	}
	return IntTy{}, false
}

func (it IntTy) min() *big.Int {
	if !it.signed {
		return bigZero
	}
	return new(big.Int).Neg(pow2(it.bits - 1))
}
func (it IntTy) max() *big.Int {
	if !it.signed {
		return new(big.Int).Sub(pow2(it.bits), bigOne)
	}
	return new(big.Int).Sub(pow2(it.bits-1), bigOne)
}

func (ts *TermStore) fits(it IntTy, x *Term) bool {
	return x.lo != nil && x.hi != nil && x.lo.Cmp(it.min()) >= 0 && x.hi.Cmp(it.max()) <= 0
}

// Wrap reduces a mathematical value to the Go type's range.
func (ts *TermStore) Wrap(it IntTy, x *Term) *Term {
	if ts.fits(it, x) {
		return x
	}
	// a choice among constants (e.g. 1<<n - 1 for a small n) wraps leaf by leaf and stays a choice among constants,
	// which keeps later bit operations on it arithmetic
	if x.op == "ite" {
		if r, ok := ts.liftIte(x, func(c *Term) *Term { return ts.Wrap(it, c) }); ok {
			return r
		}
	}
	m := ts.BigInt(pow2(it.bits))
	// a value that can be off by at most one modulus (the usual case: a sum or difference of two in-range
	// values) wraps with a comparison instead of a mod, which linear solvers handle far better
	if x.lo != nil && x.hi != nil {
		lo := new(big.Int).Sub(it.min(), pow2(it.bits))
		hi := new(big.Int).Add(it.max(), pow2(it.bits))
		if x.lo.Cmp(lo) >= 0 && x.hi.Cmp(hi) <= 0 {
			r := ts.Ite(ts.Lt(x, ts.BigInt(it.min())), ts.Add(x, m), ts.Ite(ts.Lt(ts.BigInt(it.max()), x), ts.Sub(x, m), x))
			if r.lo == nil || r.hi == nil {
				ts.SetRange(r, it.min(), it.max())
			}
			return r
		}
	}
	if !it.signed {
		return ts.Mod(x, m)
	}
	h := ts.BigInt(pow2(it.bits - 1))
	return ts.Sub(ts.Mod(ts.Add(x, h), m), h)
}

// toUnsigned gives the two's complement bit pattern as a non-negative Int.
func (ts *TermStore) toUnsigned(it IntTy, x *Term) *Term {
	if !it.signed {
		return x
	}
	if x.lo != nil && x.lo.Sign() >= 0 {
		return x
	}
	return ts.Mod(x, ts.BigInt(pow2(it.bits)))
}

func (ts *TermStore) fromUnsigned(it IntTy, u *Term) *Term {
	if !it.signed {
		return u
	}
	if u.hi != nil && u.hi.Cmp(it.max()) <= 0 {
		return u
	}
	return ts.Ite(ts.Le(u, ts.BigInt(it.max())), u, ts.Sub(u, ts.BigInt(pow2(it.bits))))
}

// bitField extracts bits [lo,hi) of non-negative u, left in place (multiplied by 2^lo).
func (ts *TermStore) bitField(u *Term, lo, hi uint) *Term {
	f := ts.Mod(ts.Div(u, ts.BigInt(pow2(lo))), ts.BigInt(pow2(hi-lo)))
	return ts.Mul(f, ts.BigInt(pow2(lo)))
}

// andConst computes u & c for non-negative u and constant c >= 0, width bits.
func (ts *TermStore) andConst(u *Term, c *big.Int, bits uint) *Term {
	if c.Sign() == 0 {
		return ts.Int(0)
	}
	if u.hi != nil && u.lo != nil && u.lo.Sign() >= 0 {
		// mask covers every possible bit of u
		need := uint(u.hi.BitLen())
		full := new(big.Int).Sub(pow2(need), bigOne)
		if new(big.Int).And(c, full).Cmp(full) == 0 {
			return u
		}
	}
	res := ts.Int(0)
	var i uint
	for i < bits {
		if c.Bit(int(i)) == 0 {
			i++
			continue
		}
		j := i
		for j < bits && c.Bit(int(j)) == 1 {
			j++
		}
		var part *Term
		if i == 0 {
			part = ts.Mod(u, ts.BigInt(pow2(j)))
		} else {
			part = ts.bitField(u, i, j)
		}
		res = ts.Add(res, part)
		i = j
	}
	return res
}

// bitwise on two non-constant operands of small width by bit expansion, or via
// a bit-vector round trip for wide operands.
func (ts *TermStore) bitwiseGeneral(op string, x, y *Term, bits uint) *Term {
	if bits <= 16 {
		res := ts.Int(0)
		for k := uint(0); k < bits; k++ {
			bx := ts.Eq(ts.Mod(ts.Div(x, ts.BigInt(pow2(k))), ts.Int(2)), ts.Int(1))
			by := ts.Eq(ts.Mod(ts.Div(y, ts.BigInt(pow2(k))), ts.Int(2)), ts.Int(1))
			var b *Term
			switch op {
			case "and":
				b = ts.And(bx, by)
			case "or":
				b = ts.Or(bx, by)
			case "xor":
				b = ts.Not(ts.Eq(bx, by))
			}
			res = ts.Add(res, ts.Ite(b, ts.BigInt(pow2(k)), ts.Int(0)))
		}
		res.lo, res.hi = bigZero, new(big.Int).Sub(pow2(bits), bigOne)
		return res
	}
	sx := ts.intern(&Term{op: "int2bv", name: "(_ int2bv " + itoa(int(bits)) + ")", sort: bvSort(int(bits)), args: []*Term{x}})
	sy := ts.intern(&Term{op: "int2bv", name: "(_ int2bv " + itoa(int(bits)) + ")", sort: bvSort(int(bits)), args: []*Term{y}})
	r := ts.mk("bv"+op, bvSort(int(bits)), sx, sy)
	t := ts.mk("bv2nat", SInt, r)
	t.lo, t.hi = bigZero, new(big.Int).Sub(pow2(bits), bigOne)
	return t
}

func itoa(i int) string { return big.NewInt(int64(i)).String() }

// BinOp evaluates a Go binary operator on integers of type it. ovf, when
// non-nil, is the condition under which the mathematical result was in range
// (to be proved by the caller as an ovf obligation); nil means exact.
// divz, when non-nil, is the condition "divisor != 0".
func (ts *TermStore) BinOp(op token.Token, it IntTy, x, y *Term, yTy IntTy, wrapSigned bool) (res, ovf, divz *Term) {
	arith := func(r *Term) (*Term, *Term, *Term) {
		if ts.fits(it, r) {
			return r, nil, nil
		}
		if it.signed && !wrapSigned {
			return r, ts.InRange(r, it.min(), it.max()), nil
		}
		return ts.Wrap(it, r), nil, nil
	}
	switch op {
	case token.ADD:
		return arith(ts.Add(x, y))
	case token.SUB:
		return arith(ts.Sub(x, y))
	case token.MUL:
		return arith(ts.Mul(x, y))
	case token.QUO, token.REM:
		nz := ts.Ne(y, ts.Int(0))
		var q *Term
		if x.lo != nil && x.lo.Sign() >= 0 && y.lo != nil && y.lo.Sign() >= 0 {
			q = ts.Div(x, y)
		} else {
			ax := ts.Ite(ts.Ge(x, ts.Int(0)), x, ts.Neg(x))
			ay := ts.Ite(ts.Ge(y, ts.Int(0)), y, ts.Neg(y))
			aq := ts.Div(ax, ay)
			same := ts.Eq(ts.Ge(x, ts.Int(0)), ts.Ge(y, ts.Int(0)))
			q = ts.Ite(same, aq, ts.Neg(aq))
		}
		if op == token.QUO {
			r, o, _ := arith(q) // MinInt / -1 overflows
			return r, o, nz
		}
		r := ts.Sub(x, ts.Mul(y, q))
		if y.isInt() && y.ival.Sign() > 0 && x.lo != nil && x.lo.Sign() >= 0 {
			r = ts.Mod(x, y)
		}
		return r, nil, nz
	case token.AND, token.OR, token.XOR, token.AND_NOT:
		// a mask chosen among constants (e.g. 1<<n-1): distribute the operation over the choice
		if !y.isInt() {
			if r, ok := ts.liftIte(y, func(c *Term) *Term { r, _, _ := ts.BinOp(op, it, x, c, yTy, wrapSigned); return r }); ok {
				return r, nil, nil
			}
		}
		if !x.isInt() && op != token.AND_NOT {
			if r, ok := ts.liftIte(x, func(c *Term) *Term { r, _, _ := ts.BinOp(op, it, c, y, yTy, wrapSigned); return r }); ok {
				return r, nil, nil
			}
		}
		ux, uy := ts.toUnsigned(it, x), ts.toUnsigned(it, y)
		full := new(big.Int).Sub(pow2(it.bits), bigOne)
		var r *Term
		switch {
		case op == token.AND && uy.isInt():
			r = ts.andConst(ux, uy.ival, it.bits)
		case op == token.AND && ux.isInt():
			r = ts.andConst(uy, ux.ival, it.bits)
		case op == token.AND_NOT && uy.isInt():
			r = ts.andConst(ux, new(big.Int).AndNot(full, uy.ival), it.bits)
		case op == token.OR && (uy.isInt() || ux.isInt()):
			if ux.isInt() {
				ux, uy = uy, ux
			}
			if ux.isInt() {
				r = ts.BigInt(new(big.Int).Or(ux.ival, uy.ival))
			} else {
				r = ts.Add(ts.andConst(ux, new(big.Int).AndNot(full, uy.ival), it.bits), uy)
			}
		case op == token.XOR && (uy.isInt() || ux.isInt()):
			if ux.isInt() {
				ux, uy = uy, ux
			}
			if ux.isInt() {
				r = ts.BigInt(new(big.Int).Xor(ux.ival, uy.ival))
			} else {
				keep := ts.andConst(ux, new(big.Int).AndNot(full, uy.ival), it.bits)
				flip := ts.Sub(uy, ts.andConst(ux, uy.ival, it.bits))
				r = ts.Add(keep, flip)
			}
		case op == token.OR && disjointBits(ux, uy):
			r = ts.Add(ux, uy)
		case op == token.AND && disjointBits(ux, uy):
			r = ts.Int(0)
		default:
			name := map[token.Token]string{token.AND: "and", token.OR: "or", token.XOR: "xor"}[op]
			if op == token.AND_NOT {
				// x &^ y = x - (x & y)
				r = ts.Sub(ux, ts.bitwiseGeneral("and", ux, uy, it.bits))
			} else {
				r = ts.bitwiseGeneral(name, ux, uy, it.bits)
			}
		}
		return ts.fromUnsigned(it, r), nil, nil
	case token.SHL:
		return ts.shift(true, it, x, y), nil, nil
	case token.SHR:
		return ts.shift(false, it, x, y), nil, nil
	}
	panic("BinOp: unsupported " + op.String())
}

func disjointBits(a, b *Term) bool {
	if a.lo == nil || b.lo == nil || a.lo.Sign() < 0 || b.lo.Sign() < 0 {
		return false
	}
	if b.hi != nil && a.tz < 200 && b.hi.Cmp(pow2(a.tz)) < 0 {
		return true
	}
	if a.hi != nil && b.tz < 200 && a.hi.Cmp(pow2(b.tz)) < 0 {
		return true
	}
	return false
}

func (ts *TermStore) shiftConst(left bool, it IntTy, x *Term, k uint) *Term {
	if k >= it.bits {
		if left || !it.signed {
			return ts.Int(0)
		}
		return ts.Ite(ts.Lt(x, ts.Int(0)), ts.Int(-1), ts.Int(0))
	}
	if left {
		return ts.Wrap(it, ts.Mul(x, ts.BigInt(pow2(k))))
	}
	return ts.Div(x, ts.BigInt(pow2(k))) // floor division = arithmetic shift
}

func (ts *TermStore) shift(left bool, it IntTy, x, s *Term) *Term {
	if s.isInt() {
		if s.ival.Sign() < 0 {
			return ts.Int(0) // caller emits the negative-shift panic obligation
		}
		if !s.ival.IsUint64() || s.ival.Uint64() > 1000 {
			return ts.shiftConst(left, it, x, 1000)
		}
		return ts.shiftConst(left, it, x, uint(s.ival.Uint64()))
	}
	if s.lo != nil && s.hi != nil && s.lo.Sign() >= 0 && s.hi.IsUint64() && s.hi.Uint64() < uint64(it.bits) {
		lo, hi := int(s.lo.Uint64()), int(s.hi.Uint64())
		res := ts.shiftConst(left, it, x, uint(hi))
		for k := hi - 1; k >= lo; k-- {
			res = ts.Ite(ts.Eq(s, ts.Int(int64(k))), ts.shiftConst(left, it, x, uint(k)), res)
		}
		return res
	}
	res := ts.shiftConst(left, it, x, it.bits) // s >= bits
	for k := int(it.bits) - 1; k >= 0; k-- {
		res = ts.Ite(ts.Eq(s, ts.Int(int64(k))), ts.shiftConst(left, it, x, uint(k)), res)
	}
	return res
}

// Convert converts an integer value between Go integer types.
func (ts *TermStore) Convert(from, to IntTy, x *Term) *Term {
	return ts.Wrap(to, x)
}
