package main

// Evaluation of contract expressions to symbolic values.

import (
	"fmt"
	"go/constant"
	"go/token"
	"go/types"
	"math/big"
	"strings"

	"golang.org/x/tools/go/ssa"
)

type cenv struct {
	fx    *FuncExec
	fn    *ssa.Function
	st    *State
	old   *State
	con   *Contract
	binds map[string]Value
	reach *Term
	body  bool // identifiers name current cell values first (loop invariants, anchors)
	inOld bool
	// parameter values at the call (call sites) or at entry (verification)
	params map[string]Value
	depth  int
	loopPre *State // loop invariants: the state in which the loop was entered, for entry(e)
	root   *cenv // the clause's top-level environment: lets are evaluated there, once
	lets   map[string]Value
	loopIter *State // state at the start of the current iteration (step clauses)
	loopHead *ssa.BasicBlock // loop whose clause is evaluated: selects the hidden index of that range loop
	pos    token.Pos // where the clause is evaluated (loop or call position): decides which of several same-named locals is meant
}

func (e *cenv) child() *cenv {
	c := *e
	if c.root == nil {
		c.root = e
	}
	c.binds = map[string]Value{}
	for k, v := range e.binds {
		c.binds[k] = v
	}
	return &c
}

var parseCache = map[string]*CExpr{}

func parseCached(s string) (*CExpr, error) {
	if e, ok := parseCache[s]; ok {
		return e, nil
	}
	e, err := ParseCExpr(s)
	if err != nil {
		return nil, err
	}
	parseCache[s] = e
	return e, nil
}

func (fx *FuncExec) evalClause(c Clause, env *cenv) (t *Term, err error) {
	defer func() {
		if r := recover(); r != nil {
			if ce, ok := r.(cerr); ok {
				err = fmt.Errorf("%s:%d: %s", shortFile(c.File), c.Line, string(ce))
				return
			}
			panic(r)
		}
	}()
	if env.reach == nil {
		env.reach = fx.ts.True()
	}
	if env.params == nil {
		env.params = fx.paramsFor(env.fn)
	}
	ex, perr := parseCached(c.Expr)
	if perr != nil {
		return nil, fmt.Errorf("%s:%d: %v", shortFile(c.File), c.Line, perr)
	}
	v := env.eval(ex)
	b, ok := v.(VBool)
	if !ok {
		return nil, fmt.Errorf("%s:%d: clause %q is not boolean (%T)", shortFile(c.File), c.Line, c.Expr, v)
	}
	return b.t, nil
}

func (fx *FuncExec) evalInt(c Clause, env *cenv) (t *Term, err error) {
	defer func() {
		if r := recover(); r != nil {
			if ce, ok := r.(cerr); ok {
				err = fmt.Errorf("%s:%d: %s", shortFile(c.File), c.Line, string(ce))
				return
			}
			panic(r)
		}
	}()
	if env.reach == nil {
		env.reach = fx.ts.True()
	}
	if env.params == nil {
		env.params = fx.paramsFor(env.fn)
	}
	ex, perr := parseCached(c.Expr)
	if perr != nil {
		return nil, perr
	}
	v := env.eval(ex)
	i, ok := v.(VInt)
	if !ok {
		return nil, fmt.Errorf("expression %q is not an integer (%T)", c.Expr, v)
	}
	return i.t, nil
}

type cerr string

func cfail(f string, a ...interface{}) { panic(cerr(fmt.Sprintf(f, a...))) }

func (e *cenv) ts() *TermStore { return e.fx.ts }

func (e *cenv) eval(x *CExpr) Value {
	ts := e.ts()
	switch x.Kind {
	case "int":
		return VInt{ts.BigInt(x.Int)}
	case "bool":
		return VBool{ts.Bool(x.Name == "true")}
	case "nil":
		return VOpaque{ts.Int(0), types.Typ[types.UntypedNil]}
	case "str":
		return cStr{x.Str}
	case "ident":
		return e.ident(x.Name)
	case "unary":
		return e.unary(x)
	case "binary":
		return e.binary(x)
	case "sel":
		return e.selector(x)
	case "index":
		return e.index(x)
	case "slice":
		return e.sliceExpr(x)
	case "call":
		return e.call(x)
	}
	cfail("cannot evaluate %s", x.String())
	return nil
}

// cStr is a string literal in a contract (compared against byte slices).
type cStr struct{ s string }

// cHeapArr is a heap field array passed to a spec function.
type cHeapArr struct{ t *Term }

// cTable is a constant package-level lookup table.
type cTable struct {
	name string
	n    int
}

// cPkg is a package qualifier (http2utils., spec.).
type cPkg struct{ name string }

// cType is a type name used in conversions / typeis.
type cType struct{ t types.Type }

func (e *cenv) ident(name string) Value {
	if v, ok := e.binds[name]; ok {
		return v
	}
	fx := e.fx
	if v, ok := e.st.ghost["g:"+name]; ok {
		return v
	}
	if e.con != nil {
		for _, l := range e.con.Lets {
			if l.Label == name {
				ex, err := parseCached(l.Expr)
				if err != nil {
					cfail("let %s: %v", name, err)
				}
				r := e
				if e.root != nil {
					r = e.root
				}
				if r.lets == nil {
					r.lets = map[string]Value{}
				}
				if v, ok := r.lets[name]; ok {
					return v
				}
				r.depth++
				if r.depth > 30 {
					cfail("let %s: recursion", name)
				}
				v := r.eval(ex)
				r.depth--
				r.lets[name] = v
				return v
			}
		}
	}
	if e.fn == nil {
		if v, ok := e.params[name]; ok {
			return v
		}
	}
	if e.fn != nil {
		if e.body && !e.inOld {
			if name == "rangeindex" && e.loopHead != nil {
				// the hidden index of the range loop this clause belongs to: the one declared last before the loop head
				var best *ssa.Alloc
				for _, b := range e.fn.Blocks {
					for _, in := range b.Instrs {
						if a, ok := in.(*ssa.Alloc); ok && a.Comment == "rangeindex" && fx.isCell(a) && b.Index < e.loopHead.Index {
							if best == nil || b.Index > best.Block().Index {
								best = a
							}
						}
					}
				}
				if best != nil {
					if v, ok := e.st.cells[best]; ok {
						return v
					}
				}
			}
			if a := fx.allocInScope(e.fn, name, e.pos); a != nil {
				if fx.isCell(a) {
					if v, ok := e.st.cells[a]; ok {
						return v
					}
					return fx.zeroValue(a.Type().(*types.Pointer).Elem())
				}
				if addr, ok := e.st.vals[a]; ok {
					return fx.load(e.st, e.reach, addr, a.Type().(*types.Pointer).Elem())
				}
			}
			if a := fx.cellByName(e.fn, name); a != nil {
				if v, ok := e.st.cells[a]; ok {
					return v
				}
				return fx.zeroValue(a.Type().(*types.Pointer).Elem())
			}
			// locals captured by closures live on the heap: read them through their address
			if a := fx.heapLocalByName(e.fn, name); a != nil {
				if addr, ok := e.st.vals[a]; ok {
					return fx.load(e.st, e.reach, addr, a.Type().(*types.Pointer).Elem())
				}
			}
			// closures: captured variables are free variables holding cell addresses
			for _, fv := range e.fn.FreeVars {
				if fv.Name() == name {
					addr := fx.valueOf(e.st, fv)
					return fx.load(e.st, e.reach, addr, fv.Type().(*types.Pointer).Elem())
				}
			}
		}
		if v, ok := e.params[name]; ok {
			return v
		}
		// a closure's captured variables, in pre- and postconditions of a closure that is verified on its own
		for _, fv := range e.fn.FreeVars {
			if fv.Name() == name {
				if addr, ok := e.st.vals[fv]; ok {
					if pt, ok := fv.Type().(*types.Pointer); ok {
						return fx.load(e.st, e.reach, addr, pt.Elem())
					}
				}
			}
		}
		// name0: entry value of parameter `name`
		if strings.HasSuffix(name, "0") {
			if v, ok := e.params[strings.TrimSuffix(name, "0")]; ok {
				return v
			}
		}
		if !e.body {
			// named results are bound by the caller; locals are not visible in pre/post
		}
	}
	switch name {
	case "spec", "http2utils":
		return cPkg{name}
	}
	// package scope
	if obj := fx.eng.lookup(e.pkgOf(), name); obj != nil {
		switch o := obj.(type) {
		case *types.Const:
			return e.constObj(o)
		case *types.Var:
			g := fx.eng.globalFor(o)
			if g == nil {
				cfail("no SSA global for %s", name)
			}
			if gi := fx.eng.globals[globalName(g)]; gi != nil && gi.kind == "intarray" && !fx.eng.mutableGlobals[globalName(g)] {
				return cTable{globalName(g), len(gi.table)}
			}
			return fx.load(e.st, e.reach, fx.valueOf(e.st, g), o.Type())
		case *types.TypeName:
			return cType{o.Type()}
		}
	}
	if t := basicTypeByName(name); t != nil {
		return cType{t}
	}
	cfail("unknown identifier %q", name)
	return nil
}

func basicTypeByName(n string) types.Type {
	for _, t := range types.Typ {
		if t.Name() == n && t.Kind() != types.Invalid {
			return t
		}
	}
	if n == "byte" {
		return types.Typ[types.Uint8]
	}
	return nil
}

func (e *cenv) pkgOf() *types.Package {
	if e.fn != nil && e.fn.Pkg != nil {
		return e.fn.Pkg.Pkg
	}
	return e.fx.fn.Pkg.Pkg
}

func (e *cenv) constObj(o *types.Const) Value {
	ts := e.ts()
	switch o.Val().Kind() {
	case constant.Bool:
		return VBool{ts.Bool(constant.BoolVal(o.Val()))}
	case constant.Int:
		bi, _ := new(big.Int).SetString(o.Val().ExactString(), 10)
		return VInt{ts.BigInt(bi)}
	case constant.String:
		return cStr{constant.StringVal(o.Val())}
	}
	cfail("constant %s of unsupported kind", o.Name())
	return nil
}

func (e *cenv) asInt(v Value, what *CExpr) *Term {
	switch x := v.(type) {
	case VInt:
		return x.t
	}
	cfail("%s is not an integer (%T)", what.String(), v)
	return nil
}

func (e *cenv) asBool(v Value, what *CExpr) *Term {
	if b, ok := v.(VBool); ok {
		return b.t
	}
	cfail("%s is not boolean (%T)", what.String(), v)
	return nil
}

func (e *cenv) unary(x *CExpr) Value {
	ts := e.ts()
	switch x.Op {
	case "!":
		return VBool{ts.Not(e.asBool(e.eval(x.Args[0]), x.Args[0]))}
	case "-":
		return VInt{ts.Neg(e.asInt(e.eval(x.Args[0]), x.Args[0]))}
	case "*":
		v := e.eval(x.Args[0])
		if ct, ok := v.(cType); ok {
			return cType{types.NewPointer(ct.t)}
		}
		if p, ok := v.(VPtr); ok {
			return e.fx.load(e.st, e.reach, p, p.typ)
		}
		cfail("cannot dereference %s", x.Args[0].String())
	case "^":
		cfail("unary ^ is not supported in contracts; write the mask explicitly")
	}
	return nil
}

func (e *cenv) binary(x *CExpr) Value {
	ts := e.ts()
	switch x.Op {
	case "==>":
		a := e.asBool(e.eval(x.Args[0]), x.Args[0])
		if a.isFalse() {
			return VBool{ts.True()}
		}
		b := e.asBool(e.eval(x.Args[1]), x.Args[1])
		return VBool{ts.Implies(a, b)}
	case "<==>":
		a := e.asBool(e.eval(x.Args[0]), x.Args[0])
		b := e.asBool(e.eval(x.Args[1]), x.Args[1])
		return VBool{ts.Eq(a, b)}
	case "&&":
		a := e.asBool(e.eval(x.Args[0]), x.Args[0])
		b := e.asBool(e.eval(x.Args[1]), x.Args[1])
		return VBool{ts.And(a, b)}
	case "||":
		a := e.asBool(e.eval(x.Args[0]), x.Args[0])
		b := e.asBool(e.eval(x.Args[1]), x.Args[1])
		return VBool{ts.Or(a, b)}
	case "==", "!=":
		a, b := e.eval(x.Args[0]), e.eval(x.Args[1])
		eq := e.equal(a, b, x)
		if x.Op == "!=" {
			eq = ts.Not(eq)
		}
		return VBool{eq}
	case "<", "<=", ">", ">=":
		a := e.asInt(e.eval(x.Args[0]), x.Args[0])
		b := e.asInt(e.eval(x.Args[1]), x.Args[1])
		switch x.Op {
		case "<":
			return VBool{ts.Lt(a, b)}
		case "<=":
			return VBool{ts.Le(a, b)}
		case ">":
			return VBool{ts.Gt(a, b)}
		default:
			return VBool{ts.Ge(a, b)}
		}
	}
	a := e.asInt(e.eval(x.Args[0]), x.Args[0])
	b := e.asInt(e.eval(x.Args[1]), x.Args[1])
	switch x.Op {
	case "+":
		return VInt{ts.Add(a, b)}
	case "-":
		return VInt{ts.Sub(a, b)}
	case "*":
		return VInt{ts.Mul(a, b)}
	case "/":
		// mathematical floor division for non-negative operands (contracts use it on sizes)
		return VInt{ts.Div(a, b)}
	case "%":
		return VInt{ts.Mod(a, b)}
	}
	// bit operations are evaluated at 64-bit unsigned width on non-negative values
	u64 := IntTy{64, false}
	op := map[string]token.Token{"&": token.AND, "|": token.OR, "^": token.XOR, "<<": token.SHL, ">>": token.SHR, "&^": token.AND_NOT}[x.Op]
	if x.Op == "<<" && b.isInt() {
		return VInt{ts.Mul(a, ts.BigInt(pow2(uint(b.ival.Uint64()))))} // mathematical, no wrap
	}
	r, _, _ := ts.BinOp(op, u64, a, b, u64, true)
	return VInt{r}
}

func (e *cenv) equal(a, b Value, x *CExpr) *Term {
	ts := e.ts()
	fx := e.fx
	// nil comparisons
	if o, ok := b.(VOpaque); ok && isNilTerm(o.t) {
		a, b = b, a
	}
	if o, ok := a.(VOpaque); ok && isNilTerm(o.t) {
		switch bv := b.(type) {
		case VPtr:
			return ts.Eq(bv.ref, ts.Int(0))
		case VSlice:
			return ts.Eq(bv.arr, ts.Int(0))
		case VIface:
			return ts.Eq(bv.tag, ts.Int(0))
		case VOpaque:
			return ts.Eq(bv.t, ts.Int(0))
		}
	}
	if s, ok := a.(cStr); ok {
		a, b = b, a
		_ = s
	}
	if s, ok := b.(cStr); ok {
		sl, ok := a.(VSlice)
		if !ok {
			if sv, ok := a.(VStr); ok {
				return ts.Eq(sv.id, ts.Int(fx.eng.stringID(s.s)))
			}
			cfail("string literal compared with %T", a)
		}
		cs := []*Term{ts.Eq(sl.len, ts.Int(int64(len(s.s))))}
		h := fx.heapGet(e.st, elemHeapKey(sl.elem), SArr2)
		arr := ts.Select(h, sl.arr)
		for i := 0; i < len(s.s); i++ {
			cs = append(cs, ts.Eq(ts.Select(arr, ts.Add(sl.off, ts.Int(int64(i)))), ts.Int(int64(s.s[i]))))
		}
		return ts.And(cs...)
	}
	if sa, ok := a.(VSlice); ok {
		if sb, ok := b.(VSlice); ok {
			return e.sliceContentEq(sa, sb)
		}
	}
	return fx.valueEq(e.st, e.reach, a, b, nil)
}

func (e *cenv) sliceContentEq(a, b VSlice) *Term {
	ts := e.ts()
	fx := e.fx
	ha := fx.heapGet(e.st, elemHeapKey(a.elem), SArr2)
	hb := fx.heapGet(e.st, elemHeapKey(b.elem), SArr2)
	aa := e.viewArr(a, ha)
	bb := e.viewArr(b, hb)
	i := ts.Bound("i", SInt)
	body := ts.Implies(ts.And(ts.Le(ts.Int(0), i), ts.Lt(i, a.len)),
		ts.Eq(ts.Select(aa, ts.Add(a.off, i)), ts.Select(bb, ts.Add(b.off, i))))
	if n, ok := constLen(a.len); ok {
		cs := []*Term{ts.Eq(a.len, b.len)}
		for k := 0; k < n; k++ {
			cs = append(cs, ts.Eq(ts.Select(aa, ts.Add(a.off, ts.Int(int64(k)))), ts.Select(bb, ts.Add(b.off, ts.Int(int64(k))))))
		}
		return ts.And(cs...)
	}
	_ = body
	rng := ts.And(ts.Le(ts.Int(0), i), ts.Lt(i, a.len))
	eq := ts.Eq(ts.Select(aa, ts.Add(a.off, i)), ts.Select(bb, ts.Add(b.off, i)))
	return ts.And(ts.Eq(a.len, b.len), ts.QuantIdx(true, i, rng, eq))
}

// viewArr gives the array a slice value reads from: its frozen view when it
// was produced under old(), else the current heap.
func (e *cenv) viewArr(s VSlice, h *Term) *Term {
	if s.view != nil {
		return s.view
	}
	return e.ts().Select(h, s.arr)
}

func (e *cenv) selector(x *CExpr) Value {
	fx := e.fx
	base := e.eval(x.Args[0])
	switch b := base.(type) {
	case cPkg:
		if b.name == "http2utils" {
			if obj := fx.eng.lookup(fx.eng.utilsPkg(), x.Name); obj != nil {
				if c, ok := obj.(*types.Const); ok {
					return e.constObj(c)
				}
			}
		}
		return cPkg{b.name + "." + x.Name}
	case VPtr:
		st, ok := b.typ.Underlying().(*types.Struct)
		if !ok {
			cfail("%s is not a pointer to a struct", x.Args[0].String())
		}
		for i := 0; i < st.NumFields(); i++ {
			if st.Field(i).Name() == x.Name {
				ft := st.Field(i).Type()
				if _, isStruct := ft.Underlying().(*types.Struct); isStruct {
					return VPtr{b.key + "." + x.Name, b.ref, ft} // interior struct: keep as address
				}
				return e.freeze(fx.loadField(e.st, e.reach, b.key+"."+x.Name, b.ref, ft))
			}
		}
		// ghost field
		if g, ok := fx.eng.ghostFields[typeKey(b.typ)+"."+x.Name]; ok {
			return fx.loadField(e.st, e.reach, b.key+"."+x.Name, b.ref, g)
		}
		cfail("no field %s in %s", x.Name, typeKey(b.typ))
	case VStruct:
		st := b.typ.Underlying().(*types.Struct)
		for i := 0; i < st.NumFields(); i++ {
			if st.Field(i).Name() == x.Name {
				return b.fields[i]
			}
		}
		cfail("no field %s in %s", x.Name, typeKey(b.typ))
	}
	cfail("selector .%s on %T", x.Name, base)
	return nil
}

// freeze pins a slice value to the contents it has in the state it is
// evaluated in, so a value produced under old() keeps denoting the old bytes.
func (e *cenv) freeze(v Value) Value {
	if s, ok := v.(VSlice); ok && e.inOld && s.view == nil && intRepresentable(s.elem) {
		h := e.fx.heapGet(e.st, elemHeapKey(s.elem), SArr2)
		s.view = e.ts().Select(h, s.arr)
		return s
	}
	return v
}

func (e *cenv) index(x *CExpr) Value {
	ts := e.ts()
	fx := e.fx
	base := e.eval(x.Args[0])
	i := e.asInt(e.eval(x.Args[1]), x.Args[1])
	switch b := base.(type) {
	case VSlice:
		if !intRepresentable(b.elem) {
			cfail("indexing a slice of %s is not supported in contracts", typeKey(b.elem))
		}
		h := fx.heapGet(e.st, elemHeapKey(b.elem), SArr2)
		v := ts.Select(e.viewArr(b, h), ts.Add(b.off, i))
		return e.elemValue(v, b.elem)
	case VArr:
		at := b.typ.Underlying().(*types.Array)
		return e.elemValue(ts.Select(b.arr, i), at.Elem())
	case cTable:
		if fx.tables == nil {
			fx.tables = map[string]bool{}
		}
		fx.tables[b.name] = true
		fx.usesSpec = true
		return VInt{ts.App("tbl."+sanitize(b.name), SInt, i)}
	case cStr:
		if i.isInt() && i.ival.IsInt64() && i.ival.Int64() >= 0 && int(i.ival.Int64()) < len(b.s) {
			return VInt{ts.Int(int64(b.s[i.ival.Int64()]))}
		}
	}
	cfail("cannot index %T", base)
	return nil
}

func (e *cenv) elemValue(v *Term, t types.Type) Value {
	if p, ok := t.Underlying().(*types.Pointer); ok {
		return VPtr{ptrKey(p.Elem()), v, p.Elem()}
	}
	if it, ok := intTyOf(t); ok && it.bits <= 16 && !v.bound {
		// byte-sized reads get their range fact
		return e.fx.typedScalar(e.st, e.reach, v, t)
	}
	return VInt{v}
}

func (e *cenv) sliceExpr(x *CExpr) Value {
	ts := e.ts()
	base := e.eval(x.Args[0])
	b, ok := base.(VSlice)
	if !ok {
		cfail("cannot slice %T", base)
	}
	lo := ts.Int(0)
	if x.Args[1] != nil {
		lo = e.asInt(e.eval(x.Args[1]), x.Args[1])
	}
	hi := b.len
	if x.Args[2] != nil {
		hi = e.asInt(e.eval(x.Args[2]), x.Args[2])
	}
	r := mkSlice(b.arr, ts.Add(b.off, lo), ts.Sub(hi, lo), ts.Sub(b.cap, lo), b.elem)
	r.view = b.view
	return r
}

func (e *cenv) call(x *CExpr) Value {
	ts := e.ts()
	fx := e.fx
	f := x.Args[0]
	args := x.Args[1:]
	if f.Kind == "ident" {
		switch f.Name {
		case "len", "cap":
			v := e.eval(args[0])
			switch s := v.(type) {
			case VSlice:
				if f.Name == "len" {
					return VInt{s.len}
				}
				return VInt{s.cap}
			case VStr:
				return VInt{fx.strLen(s.id)}
			case cStr:
				return VInt{ts.Int(int64(len(s.s)))}
			case VArr:
				return VInt{ts.Int(s.n)}
			}
			cfail("%s of %T", f.Name, v)
		case "old":
			c := e.child()
			c.st = e.old
			c.inOld = true
			return c.freeze(c.eval(args[0]))
		case "entry":
			// entry(e): value of e when the loop this invariant belongs to was entered
			if e.loopPre == nil {
				cfail("entry() is only meaningful in a loop invariant")
			}
			c := e.child()
			c.st = e.loopPre
			c.inOld = false
			v := c.eval(args[0])
			if s, ok := v.(VSlice); ok && s.view == nil && intRepresentable(s.elem) {
				h := fx.heapGet(e.loopPre, elemHeapKey(s.elem), SArr2)
				s.view = ts.Select(h, s.arr)
				return s
			}
			return v
		case "rangeindexof":
			// rangeindexof(k): the hidden index of range loop number k of this function (after that loop it equals the number
			// of elements when the loop ran to its end, and the index of the element it stopped at when it was left early)
			if len(args) != 1 {
				cfail("rangeindexof needs a loop number")
			}
			kv, ok := e.eval(args[0]).(VInt)
			if !ok || !kv.t.isInt() {
				cfail("rangeindexof needs a constant loop number")
			}
			loops := findLoops(e.fn)
			k := int(kv.t.ival.Int64())
			if k < 0 || k >= len(loops) {
				cfail("no loop %d", k)
			}
			head := loops[k].head
			var best *ssa.Alloc
			for _, b := range e.fn.Blocks {
				for _, in := range b.Instrs {
					if a, ok := in.(*ssa.Alloc); ok && a.Comment == "rangeindex" && fx.isCell(a) && b.Index < head.Index {
						if best == nil || b.Index > best.Block().Index {
							best = a
						}
					}
				}
			}
			if best == nil {
				cfail("loop %d is not a range loop", k)
			}
			if v, ok := e.st.cells[best]; ok {
				return v
			}
			return fx.zeroValue(best.Type().(*types.Pointer).Elem())
		case "atiter":
			// atiter(e): e in the state the current iteration began with (locals and heap)
			if e.loopIter == nil {
				cfail("atiter() is only meaningful in a loop step clause")
			}
			c := e.child()
			c.st = e.loopIter
			return c.eval(args[0])
		case "iter":
			// iter(e): e over the heap as it was when the current iteration began, with the locals as they are now
			if e.loopIter == nil {
				cfail("iter() is only meaningful in a loop step clause")
			}
			c := e.child()
			mixed := e.st.Clone()
			mixed.heap = e.loopIter.heap
			c.st = mixed
			return c.eval(args[0])
		case "forall", "exists":
			if len(args) != 4 && len(args) != 2 {
				cfail("%s needs (i, lo, hi, body) or (i, body)", f.Name)
			}
			if args[0].Kind != "ident" {
				cfail("%s: first argument must be a variable name", f.Name)
			}
			c := e.child()
			bv := ts.Bound(args[0].Name, SInt)
			c.binds[args[0].Name] = VInt{bv}
			var rng *Term = ts.True()
			bodyX := args[len(args)-1]
			if len(args) == 4 {
				lo := e.asInt(e.eval(args[1]), args[1])
				hi := e.asInt(e.eval(args[2]), args[2])
				rng = ts.And(ts.Le(lo, bv), ts.Lt(bv, hi))
				// small constant ranges are expanded
				if lo.isInt() && hi.isInt() {
					n := new(big.Int).Sub(hi.ival, lo.ival)
					if n.Sign() <= 0 {
						return VBool{ts.Bool(f.Name == "forall")}
					}
					if n.IsInt64() && n.Int64() <= 16 {
						var cs []*Term
						for k := int64(0); k < n.Int64(); k++ {
							c2 := e.child()
							c2.binds[args[0].Name] = VInt{ts.Add(lo, ts.Int(k))}
							cs = append(cs, c2.asBool(c2.eval(bodyX), bodyX))
						}
						if f.Name == "forall" {
							return VBool{ts.And(cs...)}
						}
						return VBool{ts.Or(cs...)}
					}
				}
			}
			body := c.asBool(c.eval(bodyX), bodyX)
			return VBool{ts.QuantIdx(f.Name == "forall", bv, rng, body)}
		case "ite":
			c := e.asBool(e.eval(args[0]), args[0])
			a, b := e.eval(args[1]), e.eval(args[2])
			return fx.iteValue(c, a, b, nil)
		case "min", "max":
			a := e.asInt(e.eval(args[0]), args[0])
			b := e.asInt(e.eval(args[1]), args[1])
			if f.Name == "min" {
				return VInt{ts.Ite(ts.Le(a, b), a, b)}
			}
			return VInt{ts.Ite(ts.Ge(a, b), a, b)}
		case "typeis":
			v := e.eval(args[0])
			iv, ok := v.(VIface)
			if !ok {
				cfail("typeis on %T", v)
			}
			ct, ok := e.eval(args[1]).(cType)
			if !ok {
				cfail("typeis: second argument must be a type")
			}
			return VBool{ts.Eq(iv.tag, ts.Int(int64(fx.eng.typeID(ct.t))))}
		case "as":
			// as(x, T): payload of interface x viewed as concrete type T
			v := e.eval(args[0])
			iv, ok := v.(VIface)
			if !ok {
				cfail("as on %T", v)
			}
			ct, ok := e.eval(args[1]).(cType)
			if !ok {
				cfail("as: second argument must be a type")
			}
			return fx.unbox(e.st, e.reach, iv, ct.t)
		case "errcode", "errframe":
			v := e.eval(args[0])
			iv, ok := v.(VIface)
			if !ok {
				cfail("%s on %T", f.Name, v)
			}
			et := fx.eng.namedType("Error")
			sv := fx.loadField(e.st, e.reach, "box:"+typeKey(et), iv.val, et).(VStruct)
			if f.Name == "errcode" {
				return sv.fields[0]
			}
			return sv.fields[1]
		case "iserror":
			v := e.eval(args[0])
			iv, ok := v.(VIface)
			if !ok {
				cfail("iserror on %T", v)
			}
			return VBool{ts.Eq(iv.tag, ts.Int(int64(fx.eng.typeID(fx.eng.namedType("Error")))))}
		case "fresh":
			// fresh(x): slice/pointer x was allocated during the call
			v := e.eval(args[0])
			a0 := fx.heapGet(e.old, allocKey, SInt)
			switch s := v.(type) {
			case VSlice:
				// array ids of arrays that belong to an object (embedded arrays, and the arrays make() creates, which are
				// numbered after the allocation they come from) live in the negative id space -(ref*1024+tag)-1
				return VBool{ts.Or(ts.Le(a0, s.arr), ts.Le(s.arr, ts.Sub(ts.Mul(ts.Int(-1024), a0), ts.Int(1))))}
			case VPtr:
				return VBool{ts.Le(a0, s.ref)}
			}
			cfail("fresh on %T", v)
		case "sameslice":
			a, ok1 := e.eval(args[0]).(VSlice)
			b, ok2 := e.eval(args[1]).(VSlice)
			if !ok1 || !ok2 {
				cfail("sameslice needs two slices")
			}
			return VBool{ts.And(ts.Eq(a.arr, b.arr), ts.Eq(a.off, b.off), ts.Eq(a.len, b.len), ts.Eq(a.cap, b.cap))}
		case "samearray":
			a, ok1 := e.eval(args[0]).(VSlice)
			b, ok2 := e.eval(args[1]).(VSlice)
			if !ok1 || !ok2 {
				cfail("samearray needs two slices")
			}
			return VBool{ts.Eq(a.arr, b.arr)}
		case "offset":
			a, ok1 := e.eval(args[0]).(VSlice)
			if !ok1 {
				cfail("offset needs a slice")
			}
			return VInt{a.off}
		case "wide":
			return e.eval(args[0])
		case "called":
			// called(f): how many times the function under contract has called f (by contract) so far
			if len(args) != 1 {
				cfail("called needs a function name")
			}
			name := normFuncName(args[0].String())
			if v, ok := e.st.ghost["calls:"+name].(VInt); ok {
				return v
			}
			return VInt{ts.Int(0)}
		case "local":
			// local(x): value of the function's local variable x in the state the clause is evaluated in
			if len(args) != 1 || args[0].Kind != "ident" {
				cfail("local needs a variable name")
			}
			a := fx.cellByName(e.fn, args[0].Name)
			if a == nil {
				cfail("no local variable %s", args[0].Name)
			}
			if v, ok := e.st.cells[a]; ok {
				return v
			}
			return fx.zeroValue(a.Type().(*types.Pointer).Elem())
		case "outer":
			// outer(x): the captured (heap allocated) local x of the function under verification, for clauses of
			// functions and closures that are inlined into it
			if len(args) != 1 || args[0].Kind != "ident" {
				cfail("outer needs a variable name")
			}
			a := fx.heapLocalByName(fx.fn, args[0].Name)
			if a == nil {
				cfail("no captured local %s in %s", args[0].Name, fx.fn.Name())
			}
			addr, ok := e.st.vals[a]
			if !ok {
				cfail("captured local %s is not live here", args[0].Name)
			}
			return fx.load(e.st, e.reach, addr, a.Type().(*types.Pointer).Elem())
		case "lenmap":
			// lenmap(T.f): the map from object references of type T to len(T.f) in the current state
			if len(args) != 1 || args[0].Kind != "sel" || args[0].Args[0].Kind != "ident" {
				cfail("lenmap needs Type.field")
			}
			return cHeapArr{fx.heapGet(e.st, args[0].Args[0].Name+"."+args[0].Name+"#len", SArr)}
		}
		if m, ok := fx.eng.cs.Macros[f.Name]; ok {
			if len(m.Params) != len(args) {
				cfail("macro %s takes %d arguments", f.Name, len(m.Params))
			}
			c := e.child()
			for i, p := range m.Params {
				c.binds[p] = e.eval(args[i])
			}
			c.depth++
			if c.depth > 20 {
				cfail("macro recursion too deep")
			}
			body, err := parseCached(m.Body)
			if err != nil {
				cfail("macro %s: %v", f.Name, err)
			}
			return c.eval(body)
		}
	}
	fv := e.eval(f)
	switch fn := fv.(type) {
	case cType:
		v := e.eval(args[0])
		if it, ok := intTyOf(fn.t); ok {
			return VInt{ts.Wrap(it, e.asInt(v, args[0]))}
		}
		return v
	case cPkg:
		if strings.HasPrefix(fn.name, "spec.") {
			return e.specCall(strings.TrimPrefix(fn.name, "spec."), args)
		}
	}
	cfail("cannot call %s", f.String())
	return nil
}

func (e *cenv) specCall(name string, args []*CExpr) Value {
	ts := e.ts()
	fx := e.fx
	sf, ok := fx.eng.specFuns[name]
	if !ok {
		cfail("unknown spec function %s", name)
	}
	if len(sf.Params) != len(args) {
		cfail("spec.%s takes %d arguments", name, len(sf.Params))
	}
	var ta []*Term
	for i, p := range sf.Params {
		v := e.eval(args[i])
		switch p.Kind {
		case "Int":
			ta = append(ta, e.asInt(v, args[i]))
		case "Bool":
			ta = append(ta, e.asBool(v, args[i]))
		case "Ref":
			pv, ok := v.(VPtr)
			if !ok {
				cfail("spec.%s: argument %d must be a pointer", name, i)
			}
			ta = append(ta, pv.ref)
		case "lenmap":
			h, ok := v.(cHeapArr)
			if !ok {
				cfail("spec.%s: argument %d must be lenmap(Type.field)", name, i)
			}
			ta = append(ta, h.t)
		case "bytes":
			s, ok := v.(VSlice)
			if !ok {
				cfail("spec.%s: argument %d must be a slice", name, i)
			}
			h := fx.heapGet(e.st, elemHeapKey(s.elem), SArr2)
			ta = append(ta, e.viewArr(s, h), s.off, s.len)
		default:
			cfail("spec.%s: unknown parameter kind %s", name, p.Kind)
		}
	}
	fx.usesSpec = true
	if fx.specUsed == nil {
		fx.specUsed = map[string]bool{}
	}
	fx.specUsed[sf.File] = true
	if strings.Contains(sf.File, "huffman") {
		if fx.tables == nil {
			fx.tables = map[string]bool{}
		}
		fx.tables["huffmanCodeLen"] = true
	}
	t := ts.App("spec."+name, sf.Result, ta...)
	// lemmas of the function, instantiated for this application (once per term)
	if len(sf.Lemmas) > 0 && !fx.inLemma && !fx.noLemmas {
		if fx.lemmaDone == nil {
			fx.lemmaDone = map[int]bool{}
		}
		if !fx.lemmaDone[t.id] && !t.bound {
			fx.lemmaDone[t.id] = true
			fx.inLemma = true
			for _, lm := range sf.Lemmas {
				le := &cenv{fx: fx, st: e.st, old: e.st, binds: map[string]Value{}, reach: ts.True(), params: map[string]Value{}}
				for i, p := range sf.Params {
					if p.Kind == "Int" {
						le.binds[p.Name] = VInt{ta[i]}
					}
				}
				func() {
					defer func() {
						if r := recover(); r != nil {
							if _, ok := r.(cerr); !ok {
								panic(r)
							}
						}
					}()
					ex, err := parseCached(lm)
					if err != nil {
						return
					}
					if b, ok := le.eval(ex).(VBool); ok {
						fx.addFact(ts.True(), b.t)
					}
				}()
			}
			fx.inLemma = false
		}
	}
	if sf.Result == SBool {
		return VBool{t}
	}
	return VInt{t}
}
