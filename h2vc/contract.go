package main

// Contract files: comment-only Go files behind the `verif` build tag. Every
// line that starts with "//@" belongs to the block opened by the last
// "//@ func ..." line. See DESIGN.md section 3.

import (
	"bufio"
	"fmt"
	"os"
	"regexp"
	"strconv"
	"strings"
)

type Clause struct {
	Label string
	Expr  string
	Line  int
	File  string
}

type LoopSpec struct {
	Ordinal    int
	Unroll     int
	Invariants []Clause
	Decreases  *Clause
	Steps      []Clause // two-state clauses checked at every way back to the loop head; iter(e) is e at the start of the iteration
}

type AnchorClause struct {
	Kind   string // "assert" or "assume"
	Anchor string // e.g. call:write#2
	Clause
}

type Contract struct {
	Pkg      string // package path suffix: "http2" or "http2utils"
	Func     string // e.g. "readInt", "(*HPACK).peek", "(*serverConn).handleStreams$1"
	Props    []string
	Bounded  []string            // clauses that are proved only up to a stated bound (reported in the evidence, never counted as proved in full)
	Routes   map[string][]string // clause label -> the properties its obligations count for (default: all of Props)
	Mode     string
	Opts     map[string]string
	Requires []Clause
	Ensures  []Clause
	Modifies []string
	ModRaw   []string
	HasMod   bool
	Loops    map[int]*LoopSpec
	Anchors  []AnchorClause
	Trusted  bool
	Inline   bool
	Pure     bool
	NoSafety bool
	Lets     []Clause // named abbreviations: label = expr (macro)
	Splits   []Clause // case-split conditions (entry state) applied to every postcondition
	Ghosts   []Clause // ghost locals: name = initial value (entry state)
	Cases    []Clause // list of cases (entry state); each postcondition is proved per case, plus exhaustiveness
	File     string
	Line     int
}

type PoolSpec struct {
	Global string // global variable name
	Type   string // e.g. "*HeaderField"; "frame" for framePools
}

type ContractSet struct {
	ByFunc  map[string]*Contract // key pkg.Func
	Order   []*Contract
	Pools   []PoolSpec
	Sealed  []string
	Guarded map[string][]string
	Chans   map[string][]Clause
	NeverClosed map[string]bool
	HeapInvs    map[string][]Clause
	GlobalInvs  map[string][]Clause // trusted facts about package variables that are only assigned during initialisation
	Types   map[string][]Clause // type invariants by type name
	Macros  map[string]Macro
	Externs map[string]*Contract // stubs for external functions by full name
}

type Macro struct {
	Params []string
	Body   string
}

var reFunc = regexp.MustCompile(`^func\s+(.+)$`)

func ParseContracts(files map[string]string) (*ContractSet, error) {
	cs := &ContractSet{HeapInvs: map[string][]Clause{}, GlobalInvs: map[string][]Clause{}, NeverClosed: map[string]bool{}, Chans: map[string][]Clause{}, Guarded: map[string][]string{}, ByFunc: map[string]*Contract{}, Types: map[string][]Clause{}, Macros: map[string]Macro{}, Externs: map[string]*Contract{}}
	for file, pkg := range files {
		f, err := os.Open(file)
		if err != nil {
			return nil, err
		}
		sc := bufio.NewScanner(f)
		sc.Buffer(make([]byte, 1<<20), 1<<20)
		var cur *Contract
		var last *string
		ln := 0
		for sc.Scan() {
			ln++
			line := strings.TrimSpace(sc.Text())
			if !strings.HasPrefix(line, "//@") {
				if line == "" {
					last = nil
				}
				continue
			}
			body := strings.TrimSpace(line[3:])
			if body == "" {
				continue
			}
			if strings.HasPrefix(body, "|") {
				if last == nil {
					return nil, fmt.Errorf("%s:%d: continuation without a clause", file, ln)
				}
				*last += " " + strings.TrimSpace(body[1:])
				continue
			}
			if strings.HasPrefix(body, "#") {
				continue // comment
			}
			last = nil
			if m := reFunc.FindStringSubmatch(body); m != nil {
				name := strings.TrimSpace(m[1])
				cur = &Contract{Pkg: pkg, Func: name, Opts: map[string]string{}, Loops: map[int]*LoopSpec{}, File: file, Line: ln}
				key := pkg + "." + name
				if strings.Contains(name, "/") || (strings.Contains(name, ".") && isExternalName(name)) {
					cur.Pkg = ""
					cs.Externs[name] = cur
				} else {
					if _, dup := cs.ByFunc[key]; dup {
						return nil, fmt.Errorf("%s:%d: duplicate contract for %s", file, ln, key)
					}
					cs.ByFunc[key] = cur
					cs.Order = append(cs.Order, cur)
				}
				continue
			}
			word, rest := splitWord(body)
			switch word {
			case "chan":
				// chan <Type.field>: <invariant over self>  (assumed for values received from that channel)
				k, inv, ok := strings.Cut(rest, ":")
				if !ok {
					return nil, fmt.Errorf("%s:%d: chan needs field: invariant", file, ln)
				}
				k = strings.TrimSpace(k)
				cs.Chans[k] = append(cs.Chans[k], Clause{Label: "chan", Expr: strings.TrimSpace(inv), Line: ln, File: file})
				last = &cs.Chans[k][len(cs.Chans[k])-1].Expr
				continue
			case "neverclosed":
				for _, k := range strings.Fields(rest) {
					cs.NeverClosed[k] = true
				}
				continue
			case "guarded":
				// guarded <lock field key>: <heap keys havocked when the lock is taken>
				lk, fields, ok := strings.Cut(rest, ":")
				if !ok {
					return nil, fmt.Errorf("%s:%d: guarded needs lock: fields", file, ln)
				}
				for _, f := range strings.Split(fields, ",") {
					if f = strings.TrimSpace(f); f != "" {
						cs.Guarded[strings.TrimSpace(lk)] = append(cs.Guarded[strings.TrimSpace(lk)], f)
					}
				}
				continue
			case "sealed":
				cs.Sealed = append(cs.Sealed, strings.Fields(rest)...)
				continue
			case "pool":
				// pool <global>: <type>
				g, t, ok := strings.Cut(rest, ":")
				if !ok {
					return nil, fmt.Errorf("%s:%d: pool needs <global>: <type>", file, ln)
				}
				cs.Pools = append(cs.Pools, PoolSpec{strings.TrimSpace(g), strings.TrimSpace(t)})
				continue
			case "macro":
				// macro name(a,b) = body
				head, b, ok := strings.Cut(rest, "=")
				if !ok {
					return nil, fmt.Errorf("%s:%d: macro needs name(params) = body", file, ln)
				}
				head = strings.TrimSpace(head)
				i := strings.Index(head, "(")
				if i < 0 || !strings.HasSuffix(head, ")") {
					return nil, fmt.Errorf("%s:%d: bad macro head", file, ln)
				}
				var ps []string
				for _, p := range strings.Split(head[i+1:len(head)-1], ",") {
					if p = strings.TrimSpace(p); p != "" {
						ps = append(ps, p)
					}
				}
				name := head[:i]
				mm := Macro{ps, strings.TrimSpace(b)}
				cs.Macros[name] = mm
				// allow continuation of the body
				mp := cs.Macros
				bodyStr := mm.Body
				last = &bodyStr
				_ = mp
				// continuation lines are rare for macros; re-store at the end of file parse
				defer func(n string, p *string, ps []string) { cs.Macros[n] = Macro{ps, *p} }(name, last, ps)
				continue
			case "heapinvariant":
				// heapinvariant T label: expr over self  (holds for every object of type T in the heap)
				tn, r2 := splitWord(rest)
				lab, ex := cutLabel(r2)
				cs.HeapInvs[tn] = append(cs.HeapInvs[tn], Clause{lab, ex, ln, file})
				last = &cs.HeapInvs[tn][len(cs.HeapInvs[tn])-1].Expr
				continue
			case "globalinvariant":
				// globalinvariant G label: expr over self (the value of package variable G, never assigned after init)
				tn, r2 := splitWord(rest)
				lab, ex := cutLabel(r2)
				cs.GlobalInvs[tn] = append(cs.GlobalInvs[tn], Clause{lab, ex, ln, file})
				last = &cs.GlobalInvs[tn][len(cs.GlobalInvs[tn])-1].Expr
				continue
			case "type":
				// type T invariant label: expr
				tn, r2 := splitWord(rest)
				kw, r3 := splitWord(r2)
				if kw != "invariant" {
					return nil, fmt.Errorf("%s:%d: expected 'invariant'", file, ln)
				}
				lab, ex := cutLabel(r3)
				cs.Types[tn] = append(cs.Types[tn], Clause{lab, ex, ln, file})
				last = &cs.Types[tn][len(cs.Types[tn])-1].Expr
				continue
			}
			if cur == nil {
				return nil, fmt.Errorf("%s:%d: clause outside a func block: %s", file, ln, body)
			}
			switch word {
			case "props":
				cur.Props = strings.Fields(rest)
			case "bounded":
				// bounded <label>: <what the bound is>
				cur.Bounded = append(cur.Bounded, strings.TrimSpace(rest))
			case "route":
				// route <label> <property>...: obligations of the clause with this label count only for these properties
				f := strings.Fields(rest)
				if len(f) < 2 {
					return nil, fmt.Errorf("%s:%d: route needs a label and properties", file, ln)
				}
				if cur.Routes == nil {
					cur.Routes = map[string][]string{}
				}
				cur.Routes[f[0]] = f[1:]
			case "mode":
				cur.Mode = rest
			case "opt":
				for _, kv := range strings.Fields(rest) {
					k, v, _ := strings.Cut(kv, "=")
					cur.Opts[k] = v
				}
			case "cases":
				// list of cases separated by ';' (split when used, so continuation lines work)
				cur.Cases = append(cur.Cases, Clause{Label: "case", Expr: rest, Line: ln, File: file})
				last = &cur.Cases[len(cur.Cases)-1].Expr
			case "split":
				for _, m := range splitTop(rest, ',') {
					if m = strings.TrimSpace(m); m != "" {
						cur.Splits = append(cur.Splits, Clause{Label: "split", Expr: m, Line: ln, File: file})
					}
				}
			case "trusted":
				cur.Trusted = true
			case "inline":
				cur.Inline = true
			case "pure":
				cur.Pure = true
			case "nosafety":
				cur.NoSafety = true
			case "requires":
				lab, ex := cutLabel(rest)
				cur.Requires = append(cur.Requires, Clause{lab, ex, ln, file})
				last = &cur.Requires[len(cur.Requires)-1].Expr
			case "ensures":
				lab, ex := cutLabel(rest)
				cur.Ensures = append(cur.Ensures, Clause{lab, ex, ln, file})
				last = &cur.Ensures[len(cur.Ensures)-1].Expr
			case "let":
				lab, ex, _ := strings.Cut(rest, "=")
				lab, ex = strings.TrimSpace(lab), strings.TrimSpace(ex)
				cur.Lets = append(cur.Lets, Clause{lab, ex, ln, file})
				last = &cur.Lets[len(cur.Lets)-1].Expr
			case "modifies":
				cur.HasMod = true
				cur.ModRaw = append(cur.ModRaw, rest)
				last = &cur.ModRaw[len(cur.ModRaw)-1]
			case "loop":
				// loop N: unroll K | invariant label: e | decreases e
				ns, r2, ok := strings.Cut(rest, ":")
				if !ok {
					return nil, fmt.Errorf("%s:%d: loop needs 'N:'", file, ln)
				}
				n, err := strconv.Atoi(strings.TrimSpace(ns))
				if err != nil {
					return nil, fmt.Errorf("%s:%d: bad loop ordinal", file, ln)
				}
				lp := cur.Loops[n]
				if lp == nil {
					lp = &LoopSpec{Ordinal: n}
					cur.Loops[n] = lp
				}
				kw, r3 := splitWord(strings.TrimSpace(r2))
				switch kw {
				case "unroll":
					k, err := strconv.Atoi(strings.TrimSpace(r3))
					if err != nil {
						return nil, fmt.Errorf("%s:%d: bad unroll count", file, ln)
					}
					lp.Unroll = k
				case "invariant":
					lab, ex := cutLabel(r3)
					lp.Invariants = append(lp.Invariants, Clause{lab, ex, ln, file})
					last = &lp.Invariants[len(lp.Invariants)-1].Expr
				case "step":
					lab, ex := cutLabel(r3)
					lp.Steps = append(lp.Steps, Clause{lab, ex, ln, file})
					last = &lp.Steps[len(lp.Steps)-1].Expr
				case "decreases":
					lp.Decreases = &Clause{"dec", r3, ln, file}
					last = &lp.Decreases.Expr
				default:
					return nil, fmt.Errorf("%s:%d: unknown loop clause %q", file, ln, kw)
				}
			default:
				if strings.HasPrefix(word, "assert@") || strings.HasPrefix(word, "assume@") {
					kind := word[:6]
					lab, ex := cutLabel(rest)
					cur.Anchors = append(cur.Anchors, AnchorClause{kind, word[7:], Clause{lab, ex, ln, file}})
					last = &cur.Anchors[len(cur.Anchors)-1].Expr
					continue
				}
				if strings.HasPrefix(word, "ghost@") {
					// ghost@call:f#k name = expr
					name, ex, ok := strings.Cut(rest, "=")
					if !ok {
						return nil, fmt.Errorf("%s:%d: ghost@ needs name = expr", file, ln)
					}
					cur.Anchors = append(cur.Anchors, AnchorClause{"ghost", word[6:], Clause{strings.TrimSpace(name), strings.TrimSpace(ex), ln, file}})
					last = &cur.Anchors[len(cur.Anchors)-1].Expr
					continue
				}
				if word == "ghost" {
					// ghost name = init
					name, ex, ok := strings.Cut(rest, "=")
					if !ok {
						return nil, fmt.Errorf("%s:%d: ghost needs name = init", file, ln)
					}
					cur.Ghosts = append(cur.Ghosts, Clause{strings.TrimSpace(name), strings.TrimSpace(ex), ln, file})
					continue
				}
				return nil, fmt.Errorf("%s:%d: unknown directive %q", file, ln, word)
			}
		}
		f.Close()
	}
	for _, c := range cs.Order {
		finishModifies(c)
	}
	for _, c := range cs.Externs {
		finishModifies(c)
	}
	return cs, nil
}

func isExternalName(n string) bool {
	if strings.HasPrefix(n, "(") {
		// methods: "(*bufio.Reader).Peek" is external, "(*HPACK).peek" is not
		if i := strings.Index(n, ")"); i > 0 && strings.Contains(n[:i], ".") {
			return true
		}
		return false
	}
	// in-package names look like "readInt" or "(*T).m" or "T.m"; external ones
	// are written with their import path, e.g. "bytes.Equal", "(*bufio.Reader).Peek"
	for _, p := range []string{"bytes.", "bufio.", "io.", "sync.", "errors.", "fmt.", "time.", "fasthttp.", "fastrand.", "rand.", "atomic.", "strconv."} {
		if strings.HasPrefix(n, p) {
			return true
		}
	}
	return false
}

func splitWord(s string) (string, string) {
	s = strings.TrimSpace(s)
	i := strings.IndexAny(s, " \t")
	if i < 0 {
		return s, ""
	}
	return s[:i], strings.TrimSpace(s[i+1:])
}

var reLabel = regexp.MustCompile(`^([A-Za-z_][A-Za-z0-9_\-]*)\s*:\s*(.*)$`)

func cutLabel(s string) (string, string) {
	s = strings.TrimSpace(s)
	if m := reLabel.FindStringSubmatch(s); m != nil {
		return m[1], strings.TrimSpace(m[2])
	}
	return "", s
}

// splitTop splits s at sep occurrences that are outside (), [] and {}.
func splitTop(s string, sep byte) []string {
	var out []string
	depth := 0
	start := 0
	for i := 0; i < len(s); i++ {
		switch s[i] {
		case '(', '[', '{':
			depth++
		case ')', ']', '}':
			depth--
		default:
			if s[i] == sep && depth == 0 {
				out = append(out, s[start:i])
				start = i + 1
			}
		}
	}
	out = append(out, s[start:])
	return out
}

func finishModifies(c *Contract) {
	for _, raw := range c.ModRaw {
		for _, m := range splitTop(raw, ',') {
			if m = strings.TrimSpace(m); m != "" && m != "nothing" {
				c.Modifies = append(c.Modifies, m)
			}
		}
	}
	c.ModRaw = nil
}
