package main

// Symbolic values: the Go-side shape of an SSA value, with SMT terms at the leaves.

import (
	"fmt"
	"go/types"
	"strings"

	"golang.org/x/tools/go/ssa"
)

type Value interface{}

type VInt struct{ t *Term }  // integers (Int)
type VBool struct{ t *Term } // Bool
type VSlice struct {
	arr, off, len, cap *Term
	elem               types.Type
	view               *Term // contract evaluation only: array contents frozen at evaluation time (old state)
}

func mkSlice(arr, off, ln, cp *Term, elem types.Type) VSlice {
	return VSlice{arr: arr, off: off, len: ln, cap: cp, elem: elem}
}
type VStr struct{ id *Term } // opaque string id; length via strlen(id)

// VPtr: pointer to a heap location. key names the heap array family ("T" for a
// root struct T, "T.f.g" for an interior struct, "*[]byte" for a boxed scalar).
// idx != nil means element idx of the embedded array / backing array "arr".
type VPtr struct {
	key string
	ref *Term
	typ types.Type // pointee type
}

// VElem: address of a slice/array element.
type VElem struct {
	heap string // element heap key
	arr  *Term
	idx  *Term
	typ  types.Type
	tbl  string // set for elements of a constant package-level table: name of the table
}

// VCell: address of a register-like local.
type VCell struct{ a *ssa.Alloc }

type VIface struct{ tag, val *Term }
type VStruct struct {
	typ    types.Type
	fields []Value
}
type VTuple struct{ vals []Value }
type VFunc struct {
	fn   *ssa.Function
	bind []Value
}
type VBuiltin struct{ name string }
type VOpaque struct {
	t   *Term // Int id
	typ types.Type
}

// VArr: an array value (used for embedded arrays copied by value, e.g. Ping.data)
type VArr struct {
	arr *Term // (Array Int Int)
	n   int64
	typ types.Type
}

func typeKey(t types.Type) string {
	switch tt := t.(type) {
	case *types.Named:
		if tt.Obj().Pkg() != nil {
			p := tt.Obj().Pkg().Path()
			if i := strings.LastIndex(p, "/"); i >= 0 {
				p = p[i+1:]
			}
			if p == "http2" {
				return tt.Obj().Name()
			}
			return p + "." + tt.Obj().Name()
		}
		return tt.Obj().Name()
	case *types.Alias:
		return typeKey(types.Unalias(tt))
	case *types.Pointer:
		return "*" + typeKey(tt.Elem())
	case *types.Slice:
		return "[]" + typeKey(tt.Elem())
	case *types.Array:
		return fmt.Sprintf("[%d]%s", tt.Len(), typeKey(tt.Elem()))
	case *types.Basic:
		// byte and rune are aliases with their own *types.Basic objects: use one name per kind
		switch tt.Kind() {
		case types.Uint8:
			return "uint8"
		case types.Int32:
			return "int32"
		}
		return tt.Name()
	}
	s := t.String()
	s = strings.ReplaceAll(s, "github.com/dgrr/http2.", "")
	return s
}

// ptrKey is the heap family for a pointer whose pointee type is t and that is
// not known to be interior.
func ptrKey(t types.Type) string {
	if _, ok := t.Underlying().(*types.Struct); ok {
		return typeKey(t)
	}
	return "*" + typeKey(t)
}

// elemHeapKey names the element heap for slices with this element type.
func elemHeapKey(t types.Type) string {
	if isByteLike(t) {
		return "elem:byte"
	}
	return "elem:" + typeKey(t)
}

func isByteLike(t types.Type) bool {
	b, ok := t.Underlying().(*types.Basic)
	return ok && (b.Kind() == types.Uint8)
}

// intRepresentable: element types we keep in (Array Int Int) heaps.
func intRepresentable(t types.Type) bool {
	switch u := t.Underlying().(type) {
	case *types.Basic:
		_, ok := intTyOf(u)
		return ok
	case *types.Pointer:
		return true
	}
	return false
}
