#!/bin/sh
# Builds the verifier offline from /verif/h2vc with the repository's toolchain.
set -e
cd "$(dirname "$0")"
. ./env.sh
mkdir -p bin .work
cd h2vc
go build -o ../bin/h2vc .
echo "h2vc built: $(../bin/h2vc 2>&1 | head -1)"
